package pure

// C06 (a) and (b): integer / decimal64 range validators and string / binary length validators
// against an exact big-integer oracle.
//
//	TestC06_IntRange      ValidateIntRestrictions, ValidateUintRestrictions (all eight kinds)
//	TestC06_DecimalRange  ValidateDecimalRestrictions (fraction-digits 1,2,3,9,18)
//	TestC06_Length        ValidateStringRestrictions (characters), ValidateBinaryRestrictions (bytes)

import (
	"fmt"
	"math/big"
	"sort"
	"strconv"
	"strings"
	"testing"
	"unicode/utf8"

	"github.com/openconfig/goyang/pkg/yang"
	"github.com/openconfig/ygot/ytypes"
	"pgregory.net/rapid"

	"verifharness/ev"
)

const c06Rule = "(a) range: YANG type with a range of 1-4 parts (single points, min/max keywords, optionally restricting a typedef) parsed by goyang; " +
	"values at and within 1 of every boundary, at the type bounds and uniform; oracle = exact big-integer membership on scaled values " +
	"(decimal64: |scaled| < 2^49, the Go value is the float64 nearest to the decimal). (b) length: same for string (characters, strings with " +
	"1-4 byte runes) and binary (bytes). (c) pattern: 1-3 regex ASTs per type printed in XSD syntax (optionally with a leading ^ / trailing $, " +
	"through a typedef, with a length, or as anchored POSIX ERE in posix-pattern); values = members drawn from the ASTs and mutants, judged by an " +
	"AST-level backtracking whole-string matcher; a member of a single pattern must validate. Key = restriction text + value. " +
	"Non-trivial: value within 1 of a range/length boundary, or a pattern with alternation / non-ASCII / leading ^."

const f24ID = "F24-decimal-boundary"

func bi(x int64) *big.Int { return big.NewInt(x) }

func pow10(n int) *big.Int { return new(big.Int).Exp(bi(10), bi(int64(n)), nil) }

func pow2(n uint) *big.Int { return new(big.Int).Lsh(bi(1), n) }

// ---------------------------------------------------------------------------------------------
// range specifications

type rangePart struct {
	lo, hi     *big.Int
	loKw, hiKw bool // printed as the keyword min / max
	single     bool // printed as one number
}

type rangeSpec struct {
	parts []rangePart
	fd    int // fraction digits of the printed numbers (0 = integers)
	trim  bool
}

func (rs rangeSpec) contains(v *big.Int) bool {
	for _, p := range rs.parts {
		if v.Cmp(p.lo) >= 0 && v.Cmp(p.hi) <= 0 {
			return true
		}
	}
	return false
}

// nearBoundary: v is within one quantum of a bound of some part.
func (rs rangeSpec) nearBoundary(v *big.Int) bool {
	for _, p := range rs.parts {
		for _, b := range []*big.Int{p.lo, p.hi} {
			d := new(big.Int).Sub(v, b)
			if d.CmpAbs(bi(1)) <= 0 {
				return true
			}
		}
	}
	return false
}

// fmtScaled prints the scaled integer s as a decimal number with fd fraction digits.
func fmtScaled(s *big.Int, fd int, trim bool) string {
	if fd == 0 {
		return s.String()
	}
	neg := s.Sign() < 0
	a := new(big.Int).Abs(s).String()
	for len(a) <= fd {
		a = "0" + a
	}
	ip, fp := a[:len(a)-fd], a[len(a)-fd:]
	if trim {
		fp = strings.TrimRight(fp, "0")
	}
	out := ip
	if fp != "" {
		out += "." + fp
	}
	if neg {
		out = "-" + out
	}
	return out
}

func (rs rangeSpec) text() string {
	var ps []string
	for _, p := range rs.parts {
		lo, hi := fmtScaled(p.lo, rs.fd, rs.trim), fmtScaled(p.hi, rs.fd, rs.trim)
		if p.loKw {
			lo = "min"
		}
		if p.hiKw {
			hi = "max"
		}
		if p.single && !p.loKw && !p.hiKw {
			ps = append(ps, lo)
		} else {
			ps = append(ps, lo+".."+hi)
		}
	}
	return strings.Join(ps, " | ")
}

func (rs rangeSpec) hasKeyword() bool {
	for _, p := range rs.parts {
		if p.loKw || p.hiKw {
			return true
		}
	}
	return false
}

// genPoint draws an integer in [lo, hi], biased to the ends, to zero and to small magnitudes.
func genPoint(rt *rapid.T, label string, lo, hi *big.Int) *big.Int {
	span := new(big.Int).Sub(hi, lo)
	clamp := func(v *big.Int) *big.Int {
		if v.Cmp(lo) < 0 {
			return new(big.Int).Set(lo)
		}
		if v.Cmp(hi) > 0 {
			return new(big.Int).Set(hi)
		}
		return v
	}
	d := bi(int64(rapid.IntRange(0, 3).Draw(rt, label+"-d")))
	switch rapid.IntRange(0, 9).Draw(rt, label+"-kind") {
	case 0:
		return clamp(new(big.Int).Add(lo, d))
	case 1:
		return clamp(new(big.Int).Sub(hi, d))
	case 2:
		return clamp(new(big.Int).Set(d))
	case 3:
		return clamp(new(big.Int).Neg(d))
	case 4, 5: // small magnitude
		return clamp(bi(int64(rapid.IntRange(-130, 300).Draw(rt, label+"-small"))))
	case 6: // around a power of two or ten
		var p *big.Int
		if rapid.Bool().Draw(rt, label+"-p10") {
			p = pow10(rapid.IntRange(1, 18).Draw(rt, label+"-e10"))
		} else {
			p = pow2(uint(rapid.IntRange(3, 63).Draw(rt, label+"-e2")))
		}
		if rapid.Bool().Draw(rt, label+"-neg") {
			p.Neg(p)
		}
		return clamp(p.Add(p, new(big.Int).Sub(d, bi(1))))
	default: // uniform
		r := new(big.Int).SetUint64(rapid.Uint64().Draw(rt, label+"-u"))
		m := new(big.Int).Add(span, bi(1))
		return new(big.Int).Add(lo, r.Mod(r, m))
	}
}

// genRangeSpec draws 1-4 ascending disjoint parts with bounds in [domLo, domHi]. The keywords
// min / max (first lower bound, last upper bound) stand for kwLo / kwHi.
func genRangeSpec(rt *rapid.T, label string, domLo, domHi, kwLo, kwHi *big.Int, fd int) rangeSpec {
	nparts := []int{1, 2, 1, 3, 2, 4, 1, 2}[rapid.IntRange(0, 7).Draw(rt, label+"-nparts")]
	// distinct sorted points
	seen := map[string]bool{}
	var pts []*big.Int
	for i := 0; i < 2*nparts; i++ {
		p := genPoint(rt, fmt.Sprintf("%s-pt%d", label, i), domLo, domHi)
		if !seen[p.String()] {
			seen[p.String()] = true
			pts = append(pts, p)
		}
	}
	sort.Slice(pts, func(i, j int) bool { return pts[i].Cmp(pts[j]) < 0 })
	rs := rangeSpec{fd: fd, trim: rapid.Bool().Draw(rt, label+"-trim")}
	for i := 0; i < len(pts); {
		single := i+1 >= len(pts) || rapid.IntRange(0, 3).Draw(rt, fmt.Sprintf("%s-single%d", label, i)) == 0
		if single {
			rs.parts = append(rs.parts, rangePart{lo: pts[i], hi: pts[i], single: true})
			i++
		} else {
			rs.parts = append(rs.parts, rangePart{lo: pts[i], hi: pts[i+1]})
			i += 2
		}
	}
	if rapid.IntRange(0, 4).Draw(rt, label+"-min") == 0 && kwLo.Cmp(rs.parts[0].hi) <= 0 {
		rs.parts[0].lo, rs.parts[0].loKw = kwLo, true
	}
	last := len(rs.parts) - 1
	if rapid.IntRange(0, 4).Draw(rt, label+"-max") == 0 && kwHi.Cmp(rs.parts[last].lo) >= 0 {
		rs.parts[last].hi, rs.parts[last].hiKw = kwHi, true
	}
	return rs
}

// testValues returns the values to try: every bound and its neighbours, the domain ends, zero,
// and a few drawn ones; all inside [lo, hi]; sorted, distinct.
func testValues(rt *rapid.T, label string, specs []rangeSpec, lo, hi *big.Int, extra int) []*big.Int {
	seen := map[string]bool{}
	var out []*big.Int
	add := func(v *big.Int) {
		if v.Cmp(lo) < 0 || v.Cmp(hi) > 0 || seen[v.String()] {
			return
		}
		seen[v.String()] = true
		out = append(out, new(big.Int).Set(v))
	}
	for _, rs := range specs {
		for _, p := range rs.parts {
			for _, b := range []*big.Int{p.lo, p.hi} {
				for d := int64(-1); d <= 1; d++ {
					add(new(big.Int).Add(b, bi(d)))
				}
			}
		}
	}
	add(lo)
	add(hi)
	add(bi(0))
	for i := 0; i < extra; i++ {
		add(genPoint(rt, fmt.Sprintf("%s-x%d", label, i), lo, hi))
	}
	sort.Slice(out, func(i, j int) bool { return out[i].Cmp(out[j]) < 0 })
	return out
}

// ---------------------------------------------------------------------------------------------
// integers

type intKind struct {
	name   string
	signed bool
	lo, hi *big.Int
}

var intKinds = []intKind{
	{"int8", true, bi(-128), bi(127)},
	{"int16", true, bi(-32768), bi(32767)},
	{"int32", true, bi(-2147483648), bi(2147483647)},
	{"int64", true, new(big.Int).Neg(pow2(63)), new(big.Int).Sub(pow2(63), bi(1))},
	{"uint8", false, bi(0), bi(255)},
	{"uint16", false, bi(0), bi(65535)},
	{"uint32", false, bi(0), bi(4294967295)},
	{"uint64", false, bi(0), new(big.Int).Sub(pow2(64), bi(1))},
}

// restrictedType draws "type base { range/length ...; }", optionally as a restriction of a typedef
// with a single-part range. It returns the spec of the leaf's type and of the typedef (or nil).
func genRestriction(rt *rapid.T, label, base, stmt, extraBody string, domLo, domHi, kwLo, kwHi *big.Int, fd int) (typeSpec, rangeSpec, *rangeSpec) {
	ts := typeSpec{Base: base}
	if rapid.IntRange(0, 3).Draw(rt, label+"-typedef") != 0 {
		rs := genRangeSpec(rt, label+"-r", domLo, domHi, kwLo, kwHi, fd)
		ts.Body = extraBody + fmt.Sprintf("      %s %s;\n", stmt, yangQuote(rs.text()))
		return ts, rs, nil
	}
	// typedef level: one part
	a, b := genPoint(rt, label+"-pa", domLo, domHi), genPoint(rt, label+"-pb", domLo, domHi)
	if a.Cmp(b) > 0 {
		a, b = b, a
	}
	parent := rangeSpec{fd: fd, parts: []rangePart{{lo: a, hi: b}}}
	if rapid.IntRange(0, 3).Draw(rt, label+"-pmin") == 0 {
		parent.parts[0].lo, parent.parts[0].loKw = kwLo, true
	}
	if rapid.IntRange(0, 3).Draw(rt, label+"-pmax") == 0 {
		parent.parts[0].hi, parent.parts[0].hiKw = kwHi, true
	}
	pl, ph := parent.parts[0].lo, parent.parts[0].hi
	cl, ch := pl, ph // the child's bounds are drawn inside the parent and inside the domain
	if cl.Cmp(domLo) < 0 {
		cl = domLo
	}
	if ch.Cmp(domHi) > 0 {
		ch = domHi
	}
	child := genRangeSpec(rt, label+"-c", cl, ch, pl, ph, fd)
	ts.UseTypedef = true
	ts.ParentBody = extraBody + fmt.Sprintf("      %s %s;\n", stmt, yangQuote(parent.text()))
	ts.Body = fmt.Sprintf("      %s %s;\n", stmt, yangQuote(child.text()))
	return ts, child, &parent
}

func verdictClass(ok bool) string {
	if ok {
		return "verdict:accept"
	}
	return "verdict:reject"
}

func TestC06_IntRange(t *testing.T) {
	rec := ev.Start(t, "C06")
	rec.Rule(c06Rule)
	counts := map[string]int64{}
	var cases int64
	rapid.Check(t, func(rt *rapid.T) {
		k := intKinds[rapid.IntRange(0, len(intKinds)-1).Draw(rt, "kind")]
		ts, rs, parent := genRestriction(rt, "int", k.name, "range", "", k.lo, k.hi, k.lo, k.hi, 0)
		entry, err := parseLeaf(ts)
		if err != nil {
			rt.Fatalf("HARNESS-BUG: goyang rejects the generated schema: %v\n%s", err, ts.yang())
		}
		specs := []rangeSpec{rs}
		if parent != nil {
			specs = append(specs, *parent)
		}
		for _, v := range testValues(rt, "v", specs, k.lo, k.hi, 3) {
			want := rs.contains(v)
			if want && parent != nil && !parent.contains(v) {
				rt.Fatalf("HARNESS-BUG: child range %q is not inside the typedef's %q", rs.text(), parent.text())
			}
			var got error
			if k.signed {
				got = ytypes.ValidateIntRestrictions(entry.Type, v.Int64())
			} else {
				got = ytypes.ValidateUintRestrictions(entry.Type, v.Uint64())
			}
			cases++
			classes := []string{"range:int", "int:" + k.name, verdictClass(want)}
			nt := rs.nearBoundary(v)
			if nt {
				classes = append(classes, "value-at-boundary±1")
			}
			if rs.hasKeyword() {
				classes = append(classes, "range-with-min/max")
			}
			if parent != nil {
				classes = append(classes, "restricts-typedef")
			}
			if len(rs.parts) > 1 {
				classes = append(classes, "multi-part")
			}
			for _, c := range classes {
				counts[c]++
			}
			rec.Case(fmt.Sprintf("int|%s|%s|%s", k.name, ts.Body+ts.ParentBody, v), nt, classes...)
			if cases == 1 || rec.WantSample() {
				rec.Sample(map[string]interface{}{"type": k.name, "range": rs.text(), "goyang_range": entry.Type.Range.String(), "value": v.String(), "want_accept": want, "got_error": errString(got)})
			}
			if (got == nil) != want {
				rt.Fatalf("integer range verdict differs from the value space\n type %s, range %q%s (goyang: %s)\n value %s\n want accept=%v, validator returned: %v",
					k.name, rs.text(), parentNote(parent), entry.Type.Range, v, want, got)
			}
		}
	})
	healthCheck(t, cases, counts, 2, "verdict:accept", "verdict:reject", "value-at-boundary±1", "range-with-min/max", "restricts-typedef", "multi-part",
		"int:int8", "int:int16", "int:int32", "int:int64", "int:uint8", "int:uint16", "int:uint32", "int:uint64")
}

func parentNote(p *rangeSpec) string {
	if p == nil {
		return ""
	}
	return fmt.Sprintf(" restricting a typedef with %q", p.text())
}

func errString(err error) string {
	if err == nil {
		return ""
	}
	return err.Error()
}

// healthCheck fails with INCONCLUSIVE when one of the essential classes is below pct percent.
func healthCheck(t *testing.T, cases int64, counts map[string]int64, pct int64, essential ...string) {
	t.Helper()
	if t.Failed() || cases < 500 {
		return
	}
	for _, c := range essential {
		if counts[c]*100 < cases*pct {
			t.Errorf("INCONCLUSIVE: generator health: class %q occurred in only %d of %d cases (< %d%%)", c, counts[c], cases, pct)
		}
	}
}

// ---------------------------------------------------------------------------------------------
// decimal64

var decFDs = []int{1, 2, 3, 9, 18}

// decLimit: |scaled value| < 2^49 (15 significant digits): within it a float64 identifies one
// decimal, beyond it no verdict is well defined (DESIGN.md C06, soundness guard).
var decLimit = new(big.Int).Sub(pow2(49), bi(1))

// decimalFloat is the Go value of the decimal64 scaled/10^fd: the nearest float64, as
// strconv (and therefore JSON decoding) produces it.
func decimalFloat(scaled *big.Int, fd int) float64 {
	f, err := strconv.ParseFloat(fmtScaled(scaled, fd, false), 64)
	if err != nil {
		panic("HARNESS-BUG: " + err.Error())
	}
	return f
}

// fromFloatExact: does goyang's yang.FromFloat (which ygot uses to convert the value before
// comparing) return exactly the decimal scaled/10^fd? This is the input feature of F24.
func fromFloatExact(f float64, scaled *big.Int, fd int) bool {
	n := yang.FromFloat(f)
	if n.FractionDigits > 18 {
		return false
	}
	if (scaled.Sign() < 0) != n.Negative && scaled.Sign() != 0 && n.Value != 0 {
		return false
	}
	l := new(big.Int).Mul(new(big.Int).SetUint64(n.Value), pow10(fd))
	r := new(big.Int).Mul(new(big.Int).Abs(scaled), pow10(int(n.FractionDigits)))
	return l.Cmp(r) == 0
}

func c06DecimalWitness(rec *ev.Rec) {
	rec.Witness(f24ID, func() (bool, string) {
		e, err := parseLeaf(typeSpec{Base: "decimal64", Body: "      fraction-digits 2;\n      range \"0.81..0.81\";\n"})
		if err != nil {
			return false, "HARNESS-BUG: " + err.Error()
		}
		if err := ytypes.ValidateDecimalRestrictions(e.Type, 0.81); err != nil {
			return true, fmt.Sprintf("decimal64 fraction-digits 2, range \"0.81..0.81\": value 0.81 rejected: %v", err)
		}
		return false, ""
	})
}

func TestC06_DecimalRange(t *testing.T) {
	rec := ev.Start(t, "C06")
	rec.Rule(c06Rule)
	c06DecimalWitness(rec)
	if t.Failed() {
		return
	}
	counts := map[string]int64{}
	var cases int64
	typeLo, typeHi := new(big.Int).Neg(pow2(63)), new(big.Int).Sub(pow2(63), bi(1))
	domLo, domHi := new(big.Int).Neg(decLimit), decLimit
	rapid.Check(t, func(rt *rapid.T) {
		fd := decFDs[rapid.IntRange(0, len(decFDs)-1).Draw(rt, "fd")]
		ts, rs, parent := genRestriction(rt, "dec", "decimal64", "range", fmt.Sprintf("      fraction-digits %d;\n", fd), domLo, domHi, typeLo, typeHi, fd)
		entry, err := parseLeaf(ts)
		if err != nil {
			rt.Fatalf("HARNESS-BUG: goyang rejects the generated schema: %v\n%s", err, ts.yang())
		}
		specs := []rangeSpec{rs}
		if parent != nil {
			specs = append(specs, *parent)
		}
		for _, v := range testValues(rt, "v", specs, domLo, domHi, 3) {
			want := rs.contains(v)
			f := decimalFloat(v, fd)
			got := ytypes.ValidateDecimalRestrictions(entry.Type, f)
			exact := fromFloatExact(f, v, fd)
			cases++
			classes := []string{"range:decimal64", fmt.Sprintf("dec:fraction-digits-%d", fd), verdictClass(want)}
			nt := rs.nearBoundary(v)
			if nt {
				classes = append(classes, "value-at-boundary±1")
			}
			if rs.hasKeyword() {
				classes = append(classes, "range-with-min/max")
			}
			if parent != nil {
				classes = append(classes, "restricts-typedef")
			}
			if !exact {
				classes = append(classes, "region:FromFloat-inexact")
			}
			for _, c := range classes {
				counts[c]++
			}
			rec.Case(fmt.Sprintf("dec|%d|%s|%s", fd, ts.Body+ts.ParentBody, v), nt, classes...)
			if cases == 1 || rec.WantSample() {
				rec.Sample(map[string]interface{}{"type": "decimal64", "fraction_digits": fd, "range": rs.text(), "goyang_range": entry.Type.Range.String(),
					"value": fmtScaled(v, fd, false), "want_accept": want, "got_error": errString(got)})
			}
			if (got == nil) != want {
				// F24: ygot converts with yang.FromFloat, whose repeated *10 does not reproduce the decimal
				if rec.Excuse(f24ID, !exact) {
					continue
				}
				rt.Fatalf("decimal64 range verdict differs from the value space\n fraction-digits %d, range %q%s (goyang: %s)\n value %s (float64 %v, yang.FromFloat gives %s, exact=%v)\n want accept=%v, validator returned: %v",
					fd, rs.text(), parentNote(parent), entry.Type.Range, fmtScaled(v, fd, false), f, yang.FromFloat(f), exact, want, got)
			}
		}
	})
	healthCheck(t, cases, counts, 2, "verdict:accept", "verdict:reject", "value-at-boundary±1", "range-with-min/max", "restricts-typedef",
		"dec:fraction-digits-1", "dec:fraction-digits-2", "dec:fraction-digits-3", "dec:fraction-digits-9", "dec:fraction-digits-18")
}

// ---------------------------------------------------------------------------------------------
// length

var lenRunes = []rune("aZ0 é日😀ß€\t/\\")

func genStringOfLen(rt *rapid.T, label string, n int) string {
	var b strings.Builder
	for i := 0; i < n; i++ {
		b.WriteRune(rapid.SampledFrom(lenRunes).Draw(rt, fmt.Sprintf("%s-%d", label, i)))
	}
	return b.String()
}

func TestC06_Length(t *testing.T) {
	rec := ev.Start(t, "C06")
	rec.Rule(c06Rule)
	counts := map[string]int64{}
	var cases int64
	maxLen := new(big.Int).Sub(pow2(64), bi(1))
	rapid.Check(t, func(rt *rapid.T) {
		binary := rapid.Bool().Draw(rt, "binary")
		base := "string"
		if binary {
			base = "binary"
		}
		domHi := bi(int64([]int{6, 12, 24, 40}[rapid.IntRange(0, 3).Draw(rt, "dom")]))
		ts, rs, parent := genRestriction(rt, "len", base, "length", "", bi(0), domHi, bi(0), maxLen, 0)
		entry, err := parseLeaf(ts)
		if err != nil {
			rt.Fatalf("HARNESS-BUG: goyang rejects the generated schema: %v\n%s", err, ts.yang())
		}
		specs := []rangeSpec{rs}
		if parent != nil {
			specs = append(specs, *parent)
		}
		for _, v := range testValues(rt, "v", specs, bi(0), bi(48), 2) {
			n := int(v.Int64())
			want := rs.contains(v)
			var got error
			var shown string
			classes := []string{"length:" + base, verdictClass(want)}
			if binary {
				bs := rapid.SliceOfN(rapid.Byte(), n, n).Draw(rt, fmt.Sprintf("bytes%d", n))
				got = ytypes.ValidateBinaryRestrictions(entry.Type, bs)
				shown = fmt.Sprintf("%d bytes %x", n, bs)
			} else {
				s := genStringOfLen(rt, fmt.Sprintf("s%d", n), n)
				if utf8.RuneCountInString(s) != n {
					rt.Fatalf("HARNESS-BUG: generated string has %d runes, want %d", utf8.RuneCountInString(s), n)
				}
				if len(s) != n {
					classes = append(classes, "string-with-multibyte-runes")
					// would a byte count give the other verdict?
					if rs.contains(bi(int64(len(s)))) != want {
						classes = append(classes, "bytes-vs-runes-differ-in-verdict")
					}
				}
				got = ytypes.ValidateStringRestrictions(entry.Type, s)
				shown = fmt.Sprintf("%d characters / %d bytes %s", n, len(s), quoteGo(s))
			}
			cases++
			nt := rs.nearBoundary(v)
			if nt {
				classes = append(classes, "value-at-boundary±1")
			}
			if rs.hasKeyword() {
				classes = append(classes, "range-with-min/max")
			}
			if parent != nil {
				classes = append(classes, "restricts-typedef")
			}
			for _, c := range classes {
				counts[c]++
			}
			rec.Case(fmt.Sprintf("len|%s|%s|%s", base, ts.Body+ts.ParentBody, shown), nt, classes...)
			if cases == 1 || rec.WantSample() {
				rec.Sample(map[string]interface{}{"type": base, "length": rs.text(), "goyang_length": entry.Type.Length.String(), "value": shown, "want_accept": want, "got_error": errString(got)})
			}
			if (got == nil) != want {
				rt.Fatalf("length verdict differs from the value space\n type %s, length %q%s (goyang: %s)\n value: %s\n want accept=%v, validator returned: %v",
					base, rs.text(), parentNote(parent), entry.Type.Length, shown, want, got)
			}
		}
	})
	healthCheck(t, cases, counts, 2, "verdict:accept", "verdict:reject", "value-at-boundary±1", "length:string", "length:binary",
		"string-with-multibyte-runes", "bytes-vs-runes-differ-in-verdict", "range-with-min/max", "restricts-typedef")
}
