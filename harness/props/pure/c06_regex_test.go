package pure

// Regular-expression ASTs for C06(c): generator, XSD / POSIX-ERE printers, member sampler and
// an AST-level backtracking whole-string matcher. Go's regexp package is not used anywhere in
// the oracle.
//
// Subset (DESIGN.md C06): literals (incl. non-ASCII, escaped metacharacters), character
// classes and negated classes with single characters and ranges, '.', groups, alternation
// (possibly with an empty branch), and the quantifiers ? * + {m} {m,} {m,n}. No multi-character
// escapes (\d \w \s \p{..}), no class subtraction: their XSD meaning differs from RE2's by
// definition and they are outside the supported subset.

import (
	"fmt"
	"strings"

	"pgregory.net/rapid"
)

type reKind int

const (
	reLit reKind = iota
	reAny
	reClass
	reCat
	reAlt
	reRep
	reGroup
)

type classItem struct{ lo, hi rune }

type reNode struct {
	kind  reKind
	r     rune // reLit
	esc   bool // reLit: print an optional escape (\^ \$ \-) although not required
	neg   bool // reClass
	items []classItem
	subs  []*reNode // reCat, reAlt
	sub   *reNode   // reRep, reGroup
	min   int       // reRep
	max   int       // reRep, -1 = unbounded
	style int       // reRep: which spelling when several exist
}

// ---------------------------------------------------------------------------------------------
// printing

const xsdMeta = `.\?*+{}()|[]` // must be escaped to be a literal outside a class

type reSyntax int

const (
	synXSD reSyntax = iota
	synPOSIX
)

func (n *reNode) print(b *strings.Builder, syn reSyntax, escapeAllCarets bool) {
	switch n.kind {
	case reLit:
		switch {
		case n.r == '\t':
			b.WriteString(`\t`)
		case strings.ContainsRune(xsdMeta, n.r):
			b.WriteByte('\\')
			b.WriteRune(n.r)
		case n.r == '^' || n.r == '$':
			if n.esc || syn == synPOSIX || (escapeAllCarets && n.r == '^') {
				b.WriteByte('\\')
			}
			b.WriteRune(n.r)
		case n.r == '-':
			if n.esc && syn != synPOSIX {
				b.WriteByte('\\')
			}
			b.WriteRune(n.r)
		default:
			b.WriteRune(n.r)
		}
	case reAny:
		b.WriteByte('.')
	case reClass:
		b.WriteByte('[')
		if n.neg {
			b.WriteByte('^')
		}
		pc := func(r rune) {
			switch {
			case r == '\t':
				b.WriteString(`\t`)
			case strings.ContainsRune(`\[]-^`, r):
				b.WriteByte('\\')
				b.WriteRune(r)
			default:
				b.WriteRune(r)
			}
		}
		for _, it := range n.items {
			pc(it.lo)
			if it.hi != it.lo {
				b.WriteByte('-')
				pc(it.hi)
			}
		}
		b.WriteByte(']')
	case reCat:
		for _, s := range n.subs {
			if s.kind == reAlt {
				b.WriteByte('(')
				s.print(b, syn, escapeAllCarets)
				b.WriteByte(')')
			} else {
				s.print(b, syn, escapeAllCarets)
			}
		}
	case reAlt:
		for i, s := range n.subs {
			if i > 0 {
				b.WriteByte('|')
			}
			s.print(b, syn, escapeAllCarets)
		}
	case reGroup:
		b.WriteByte('(')
		n.sub.print(b, syn, escapeAllCarets)
		b.WriteByte(')')
	case reRep:
		switch n.sub.kind {
		case reLit, reAny, reClass, reGroup:
			n.sub.print(b, syn, escapeAllCarets)
		default:
			b.WriteByte('(')
			n.sub.print(b, syn, escapeAllCarets)
			b.WriteByte(')')
		}
		switch {
		case n.min == 0 && n.max == 1 && n.style%2 == 0:
			b.WriteByte('?')
		case n.min == 0 && n.max == -1 && n.style%2 == 0:
			b.WriteByte('*')
		case n.min == 1 && n.max == -1 && n.style%2 == 0:
			b.WriteByte('+')
		case n.max == -1:
			fmt.Fprintf(b, "{%d,}", n.min)
		case n.min == n.max && n.style%3 != 0:
			fmt.Fprintf(b, "{%d}", n.min)
		default:
			fmt.Fprintf(b, "{%d,%d}", n.min, n.max)
		}
	}
}

func (n *reNode) text(syn reSyntax, escapeAllCarets bool) string {
	var b strings.Builder
	n.print(&b, syn, escapeAllCarets)
	return b.String()
}

// posixPrintable: the POSIX rendering is limited to ASTs whose classes need no escaping inside
// a bracket expression (there, backslash is an ordinary character in POSIX but an escape in
// Go), so that the printed ERE means the same to POSIX and to Go's POSIX mode.
func (n *reNode) posixPrintable() bool {
	switch n.kind {
	case reLit:
		return n.r != '\t'
	case reClass:
		for _, it := range n.items {
			for _, r := range []rune{it.lo, it.hi} {
				if strings.ContainsRune("\\[]-^\t", r) {
					return false
				}
			}
		}
		return true
	case reCat, reAlt:
		for _, s := range n.subs {
			if !s.posixPrintable() {
				return false
			}
		}
		return true
	case reRep, reGroup:
		return n.sub.posixPrintable()
	}
	return true
}

// features for class labels and the non-triviality rule
type reFeatures struct {
	alt, nonASCII, class, negClass, dot, rep, group, emptyBranch, metaLiteral bool
}

func (n *reNode) features(f *reFeatures) {
	switch n.kind {
	case reLit:
		if n.r >= 0x80 {
			f.nonASCII = true
		}
		if strings.ContainsRune(xsdMeta+"^$-", n.r) {
			f.metaLiteral = true
		}
	case reAny:
		f.dot = true
	case reClass:
		if n.neg {
			f.negClass = true
		} else {
			f.class = true
		}
		for _, it := range n.items {
			if it.lo >= 0x80 || it.hi >= 0x80 {
				f.nonASCII = true
			}
		}
	case reCat:
		for _, s := range n.subs {
			s.features(f)
		}
	case reAlt:
		f.alt = true
		for _, s := range n.subs {
			if s.kind == reCat && len(s.subs) == 0 {
				f.emptyBranch = true
			}
			s.features(f)
		}
	case reRep:
		f.rep = true
		n.sub.features(f)
	case reGroup:
		f.group = true
		n.sub.features(f)
	}
}

// ---------------------------------------------------------------------------------------------
// matching

type matchMode int

const (
	modeXSD   matchMode = iota // '.' = [^\n\r]
	modePOSIX                  // '.' = any character
)

func (n *reNode) classHas(r rune) bool {
	in := false
	for _, it := range n.items {
		if r >= it.lo && r <= it.hi {
			in = true
			break
		}
	}
	return in != n.neg
}

// matchCtx bounds the work of one match: nested quantifiers over long strings can make a
// backtracking matcher exponential, and a case whose verdict would cost too much is dropped
// (counted, never judged) rather than slowing the run down.
type matchCtx struct {
	mode     matchMode
	steps    int
	limit    int
	exceeded bool
}

// match reports whether some way of matching n at s[i:] lets the continuation k succeed.
func (n *reNode) match(c *matchCtx, s []rune, i int, k func(int) bool) bool {
	c.steps++
	if c.steps > c.limit {
		c.exceeded = true
		return false
	}
	switch n.kind {
	case reLit:
		return i < len(s) && s[i] == n.r && k(i+1)
	case reAny:
		if i >= len(s) {
			return false
		}
		if c.mode == modeXSD && (s[i] == '\n' || s[i] == '\r') {
			return false
		}
		return k(i + 1)
	case reClass:
		return i < len(s) && n.classHas(s[i]) && k(i+1)
	case reGroup:
		return n.sub.match(c, s, i, k)
	case reAlt:
		for _, b := range n.subs {
			if b.match(c, s, i, k) {
				return true
			}
		}
		return false
	case reCat:
		return matchSeq(c, n.subs, s, i, k)
	case reRep:
		return n.matchRep(c, s, i, 0, k)
	}
	panic("HARNESS-BUG: unknown regex node kind")
}

func matchSeq(c *matchCtx, subs []*reNode, s []rune, i int, k func(int) bool) bool {
	if len(subs) == 0 {
		return k(i)
	}
	return subs[0].match(c, s, i, func(j int) bool { return matchSeq(c, subs[1:], s, j, k) })
}

func (n *reNode) matchRep(c *matchCtx, s []rune, i, count int, k func(int) bool) bool {
	if count >= n.min && k(i) {
		return true
	}
	if n.max != -1 && count >= n.max {
		return false
	}
	return n.sub.match(c, s, i, func(j int) bool {
		if j == i && count >= n.min {
			// an empty iteration beyond the minimum adds nothing (and would loop)
			return false
		}
		return n.matchRep(c, s, j, count+1, k)
	})
}

// fullMatch: whole-string semantics. ok=false means the step budget was exhausted and there
// is no verdict.
func (n *reNode) fullMatch(s string, mode matchMode) (matched, ok bool) {
	rs := []rune(s)
	c := &matchCtx{mode: mode, limit: 400000}
	m := n.match(c, rs, 0, func(j int) bool { return j == len(rs) })
	return m, !c.exceeded
}

// ---------------------------------------------------------------------------------------------
// generation

var (
	reLetters  = []rune("abcxyzAZ019")
	reMetaLits = []rune(`.\?*+{}()|[]^$-`)
	rePunct    = []rune(" _:/,;=@#%&!~'\"<>")
	reNonASCII = []rune("éß日本ü😀е€")
	// the pool from which '.', negated classes and mutations draw characters
	rePool = []rune("abcxyzAZ019.\\?*+{}()|[]^$- _:/=@éß日ü😀€\t")
)

func genLitRune(rt *rapid.T, label string) rune {
	switch w := rapid.IntRange(0, 19).Draw(rt, label+"-k"); {
	case w < 9:
		return rapid.SampledFrom(reLetters).Draw(rt, label)
	case w < 13:
		return rapid.SampledFrom(reMetaLits).Draw(rt, label)
	case w < 15:
		return rapid.SampledFrom(rePunct).Draw(rt, label)
	case w < 19:
		return rapid.SampledFrom(reNonASCII).Draw(rt, label)
	}
	return '\t'
}

func genClass(rt *rapid.T, label string) *reNode {
	n := &reNode{kind: reClass, neg: rapid.IntRange(0, 3).Draw(rt, label+"-neg") == 0}
	cnt := rapid.IntRange(1, 4).Draw(rt, label+"-n")
	for i := 0; i < cnt; i++ {
		l := fmt.Sprintf("%s-i%d", label, i)
		if rapid.IntRange(0, 2).Draw(rt, l+"-range") == 0 {
			rs := [][2]rune{{'a', 'z'}, {'A', 'Z'}, {'0', '9'}, {'a', 'c'}, {'x', 'z'}, {'0', '1'}, {'à', 'ÿ'}, {'一', '龥'}, {' ', '/'}}
			r := rapid.SampledFrom(rs).Draw(rt, l)
			n.items = append(n.items, classItem{r[0], r[1]})
		} else {
			r := genLitRune(rt, l)
			n.items = append(n.items, classItem{r, r})
		}
	}
	return n
}

func genAtom(rt *rapid.T, label string, depth int) *reNode {
	w := rapid.IntRange(0, 19).Draw(rt, label+"-atom")
	switch {
	case w < 10 || (depth <= 0 && w >= 17):
		r := genLitRune(rt, label+"-lit")
		return &reNode{kind: reLit, r: r, esc: rapid.Bool().Draw(rt, label+"-esc")}
	case w < 12:
		return &reNode{kind: reAny}
	case w < 17:
		return genClass(rt, label+"-cls")
	default:
		return &reNode{kind: reGroup, sub: genRegex(rt, label+"-g", depth-1)}
	}
}

func genPiece(rt *rapid.T, label string, depth int) *reNode {
	a := genAtom(rt, label, depth)
	q := rapid.IntRange(0, 13).Draw(rt, label+"-q")
	rep := &reNode{kind: reRep, sub: a, style: rapid.IntRange(0, 5).Draw(rt, label+"-qs")}
	switch q {
	case 0:
		rep.min, rep.max = 0, 1
	case 1:
		rep.min, rep.max = 0, -1
	case 2:
		rep.min, rep.max = 1, -1
	case 3:
		rep.min = rapid.IntRange(0, 3).Draw(rt, label+"-qm")
		rep.max = rep.min + rapid.IntRange(0, 2).Draw(rt, label+"-qx")
		if rep.max == 0 {
			rep.max = 1
		}
	case 4:
		rep.min, rep.max = rapid.IntRange(0, 3).Draw(rt, label+"-qm"), -1
	default:
		return a
	}
	return rep
}

func genBranch(rt *rapid.T, label string, depth int) *reNode {
	n := rapid.IntRange(0, 4).Draw(rt, label+"-len")
	if n == 0 && rapid.IntRange(0, 3).Draw(rt, label+"-empty") != 0 {
		n = 1 // empty branches are legal but kept rare
	}
	c := &reNode{kind: reCat}
	for i := 0; i < n; i++ {
		c.subs = append(c.subs, genPiece(rt, fmt.Sprintf("%s-p%d", label, i), depth))
	}
	return c
}

// genRegex draws a regular expression: a branch or an alternation of 2-3 branches.
func genRegex(rt *rapid.T, label string, depth int) *reNode {
	nb := 1
	if rapid.IntRange(0, 3).Draw(rt, label+"-alt") == 0 {
		nb = rapid.IntRange(2, 3).Draw(rt, label+"-nb")
	}
	if nb == 1 {
		return genBranch(rt, label+"-b0", depth)
	}
	a := &reNode{kind: reAlt}
	for i := 0; i < nb; i++ {
		a.subs = append(a.subs, genBranch(rt, fmt.Sprintf("%s-b%d", label, i), depth))
	}
	return a
}

// drawMember samples a string of L(n). The characters for '.' and negated classes come from
// rePool (never '\n' / '\r', so the sample is a member under both '.' semantics).
func (n *reNode) drawMember(rt *rapid.T, label string, out *[]rune) {
	switch n.kind {
	case reLit:
		*out = append(*out, n.r)
	case reAny:
		*out = append(*out, rapid.SampledFrom(rePool).Draw(rt, label+"-any"))
	case reClass:
		if !n.neg {
			it := n.items[rapid.IntRange(0, len(n.items)-1).Draw(rt, label+"-item")]
			r := it.lo
			if it.hi > it.lo {
				switch rapid.IntRange(0, 3).Draw(rt, label+"-pos") {
				case 0:
					r = it.lo
				case 1:
					r = it.hi
				default:
					r = it.lo + rune(rapid.IntRange(0, int(it.hi-it.lo)).Draw(rt, label+"-off"))
				}
			}
			*out = append(*out, r)
			return
		}
		start := rapid.IntRange(0, len(rePool)-1).Draw(rt, label+"-neg")
		for d := 0; d < len(rePool); d++ {
			if r := rePool[(start+d)%len(rePool)]; n.classHas(r) {
				*out = append(*out, r)
				return
			}
		}
		*out = append(*out, '\u2603') // the pool is excluded entirely: any other character
		if !n.classHas('\u2603') {
			panic("HARNESS-BUG: negated class excludes the fallback character")
		}
	case reCat:
		for i, s := range n.subs {
			s.drawMember(rt, fmt.Sprintf("%s-%d", label, i), out)
		}
	case reAlt:
		i := rapid.IntRange(0, len(n.subs)-1).Draw(rt, label+"-branch")
		n.subs[i].drawMember(rt, fmt.Sprintf("%s-b%d", label, i), out)
	case reGroup:
		n.sub.drawMember(rt, label+"-g", out)
	case reRep:
		hi := n.min + 2
		if n.max != -1 && n.max < hi {
			hi = n.max
		}
		c := rapid.IntRange(n.min, hi).Draw(rt, label+"-count")
		for i := 0; i < c; i++ {
			n.sub.drawMember(rt, fmt.Sprintf("%s-r%d", label, i), out)
		}
	}
}

// mutateString derives a probable non-member from a member.
func mutateString(rt *rapid.T, label string, s []rune, allowNewline bool) []rune {
	pool := rePool
	if allowNewline {
		pool = append(append([]rune{}, rePool...), '\n', '\n', '\r')
	}
	out := append([]rune{}, s...)
	n := rapid.IntRange(1, 2).Draw(rt, label+"-n")
	for m := 0; m < n; m++ {
		l := fmt.Sprintf("%s-m%d", label, m)
		op := rapid.IntRange(0, 6).Draw(rt, l+"-op")
		if len(out) == 0 && op != 5 {
			op = 1
		}
		switch op {
		case 0: // delete
			i := rapid.IntRange(0, len(out)-1).Draw(rt, l+"-i")
			out = append(out[:i:i], out[i+1:]...)
		case 1: // insert
			i := rapid.IntRange(0, len(out)).Draw(rt, l+"-i")
			r := rapid.SampledFrom(pool).Draw(rt, l+"-r")
			out = append(out[:i:i], append([]rune{r}, out[i:]...)...)
		case 2: // replace
			i := rapid.IntRange(0, len(out)-1).Draw(rt, l+"-i")
			out[i] = rapid.SampledFrom(pool).Draw(rt, l+"-r")
		case 3: // append a suffix (what a missing end anchor lets through)
			k := rapid.IntRange(1, 3).Draw(rt, l+"-k")
			for j := 0; j < k; j++ {
				out = append(out, rapid.SampledFrom(pool).Draw(rt, fmt.Sprintf("%s-r%d", l, j)))
			}
		case 4: // prepend a prefix
			k := rapid.IntRange(1, 3).Draw(rt, l+"-k")
			var pre []rune
			for j := 0; j < k; j++ {
				pre = append(pre, rapid.SampledFrom(pool).Draw(rt, fmt.Sprintf("%s-r%d", l, j)))
			}
			out = append(pre, out...)
		case 5: // unrelated short string
			k := rapid.IntRange(0, 4).Draw(rt, l+"-k")
			out = out[:0]
			for j := 0; j < k; j++ {
				out = append(out, rapid.SampledFrom(pool).Draw(rt, fmt.Sprintf("%s-r%d", l, j)))
			}
		case 6: // duplicate one character
			i := rapid.IntRange(0, len(out)-1).Draw(rt, l+"-i")
			out = append(out[:i+1:i+1], out[i:]...)
		}
	}
	return out
}

// generalize builds another regex that accepts s by construction: used for the second and
// third pattern of a type, so that the conjunction of the patterns is not empty.
func generalize(rt *rapid.T, label string, s []rune) *reNode {
	c := &reNode{kind: reCat}
	i := 0
	for i < len(s) {
		l := fmt.Sprintf("%s-%d", label, i)
		r := s[i]
		switch rapid.IntRange(0, 7).Draw(rt, l) {
		case 0: // '.' (not for line breaks)
			if r == '\n' || r == '\r' {
				c.subs = append(c.subs, &reNode{kind: reLit, r: r})
			} else {
				c.subs = append(c.subs, &reNode{kind: reAny})
			}
		case 1: // a class containing the character
			c.subs = append(c.subs, &reNode{kind: reClass, items: []classItem{{r, r}, {'a', 'c'}}})
		case 2: // a negated class not containing it
			other := rune('q')
			if r == 'q' {
				other = 'w'
			}
			c.subs = append(c.subs, &reNode{kind: reClass, neg: true, items: []classItem{{other, other}}})
		case 3: // swallow the rest with .* when it has no line break
			rest := string(s[i:])
			if !strings.ContainsAny(rest, "\n\r") {
				c.subs = append(c.subs, &reNode{kind: reRep, sub: &reNode{kind: reAny}, min: 0, max: -1})
				i = len(s)
				continue
			}
			c.subs = append(c.subs, &reNode{kind: reLit, r: r})
		case 4: // optional extra
			c.subs = append(c.subs, &reNode{kind: reLit, r: r}, &reNode{kind: reRep, sub: &reNode{kind: reLit, r: 'k'}, min: 0, max: 1})
		case 5: // alternation
			c.subs = append(c.subs, &reNode{kind: reGroup, sub: &reNode{kind: reAlt, subs: []*reNode{
				{kind: reCat, subs: []*reNode{{kind: reLit, r: 'n'}, {kind: reLit, r: 'o'}}}, {kind: reCat, subs: []*reNode{{kind: reLit, r: r}}}}}})
		default:
			c.subs = append(c.subs, &reNode{kind: reLit, r: r, esc: true})
		}
		i++
	}
	return c
}
