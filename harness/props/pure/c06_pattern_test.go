package pure

// C06 (c): pattern and posix-pattern restrictions of strings.
//
//	TestC06_Pattern  ValidateStringRestrictions on types with 1-3 patterns (XSD syntax, optionally
//	                 through a typedef, with a length, with a leading ^ / trailing $, or as
//	                 posix-pattern) against the AST-level matcher of c06_regex_test.go
//
// Soundness guard (DESIGN.md C06): many YANG modules write Perl-style anchors into patterns, and
// ygot deliberately tolerates a leading ^ and a trailing $. For such patterns a value is judged
// only when the strict XSD reading (both are literal characters) and the tolerant reading (both
// are redundant anchors) give the same verdict.

import (
	"fmt"
	"strings"
	"testing"
	"unicode/utf8"

	"github.com/openconfig/ygot/ytypes"
	"pgregory.net/rapid"

	"verifharness/ev"
)

const (
	f11NonASCIIEnd   = "F11-nonascii-end"
	f11EscapedDollar = "F11-escaped-dollar"
	f11CaretAlt      = "F11-caret-alternation"
	f11CaretBracket  = "F11-caret-after-escaped-bracket"
	f11EmptyPattern  = "F11-empty-pattern"
	f28PosixNewline  = "F28-posix-pattern-newline"
	f29DotCR         = "F29-dot-matches-cr"
)

// patSpec is one pattern statement.
type patSpec struct {
	body      *reNode
	lead      bool // the text starts with a bare ^
	trail     bool // the text ends with a bare $
	wrap      bool // the body is printed inside one extra group (same language)
	escCarets bool // every literal ^ of the body is printed as \^
}

func (p patSpec) inner() string {
	s := p.body.text(synXSD, p.escCarets)
	if p.wrap {
		s = "(" + s + ")"
	}
	return s
}

func (p patSpec) text() string {
	s := p.inner()
	if p.lead {
		s = "^" + s
	}
	if p.trail {
		s += "$"
	}
	return s
}

// posixText: the same language as an anchored POSIX ERE.
func (p patSpec) posixText() string { return "^(" + p.body.text(synPOSIX, true) + ")$" }

func endsWithBareDollar(s string) bool {
	if !strings.HasSuffix(s, "$") {
		return false
	}
	n := 0
	for i := len(s) - 2; i >= 0 && s[i] == '\\'; i-- {
		n++
	}
	return n%2 == 0
}

func endsWithEscapedDollar(s string) bool {
	return strings.HasSuffix(s, "$") && !endsWithBareDollar(s)
}

// normalize makes sure that a leading ^ / trailing $ of the text come from lead / trail only.
func (p patSpec) normalize() patSpec {
	in := p.inner()
	if !p.wrap && (strings.HasPrefix(in, "^") || endsWithBareDollar(in)) {
		p.wrap = true
	}
	return p
}

// topLevelAlt: the text has a '|' outside every group.
func (p patSpec) topLevelAlt() bool { return p.body.kind == reAlt && !p.wrap }

func litNode(r rune) *reNode { return &reNode{kind: reLit, r: r} }

// xsdAST: the strict reading of the text, in which a leading ^ and a trailing $ are literal
// characters (of the first / last branch when there is a top-level alternation).
func (p patSpec) xsdAST() *reNode {
	if !p.lead && !p.trail {
		return p.body
	}
	if p.topLevelAlt() {
		a := &reNode{kind: reAlt, subs: append([]*reNode{}, p.body.subs...)}
		if p.lead {
			a.subs[0] = &reNode{kind: reCat, subs: []*reNode{litNode('^'), a.subs[0]}}
		}
		if p.trail {
			l := len(a.subs) - 1
			a.subs[l] = &reNode{kind: reCat, subs: []*reNode{a.subs[l], litNode('$')}}
		}
		return a
	}
	c := &reNode{kind: reCat}
	if p.lead {
		c.subs = append(c.subs, litNode('^'))
	}
	c.subs = append(c.subs, &reNode{kind: reGroup, sub: p.body})
	if p.trail {
		c.subs = append(c.subs, litNode('$'))
	}
	return c
}

// tolerantAST: the reading in which a leading ^ and a trailing $ are redundant anchors.
func (p patSpec) tolerantAST() *reNode { return p.body }

// caretAfterEscapedBracket: outside a character class the text has an escaped '[' directly
// followed by a bare '^'.
func caretAfterEscapedBracket(s string) bool {
	rs := []rune(s)
	inClass := false
	for i := 0; i < len(rs); i++ {
		switch {
		case rs[i] == '\\' && i+1 < len(rs):
			if !inClass && rs[i+1] == '[' && i+2 < len(rs) && rs[i+2] == '^' {
				return true
			}
			i++
		case rs[i] == '[' && !inClass:
			inClass = true
		case rs[i] == ']' && inClass:
			inClass = false
		}
	}
	return false
}

// pattern-level trigger features of the open findings about fixYangRegexp
type patTriggers struct {
	nonASCIIEnd, escapedDollar, caretAlt, caretBracket, empty bool
}

func (p patSpec) triggers() patTriggers {
	s := p.text()
	var t patTriggers
	if r, _ := utf8.DecodeLastRuneInString(s); s != "" && r >= 0x80 {
		t.nonASCIIEnd = true
	}
	t.escapedDollar = endsWithEscapedDollar(s)
	t.caretAlt = p.lead && p.topLevelAlt()
	t.caretBracket = caretAfterEscapedBracket(s)
	t.empty = s == ""
	return t
}

// twin: the same language (under both readings) written so that no trigger feature remains.
func (p patSpec) twin() patSpec {
	return patSpec{body: p.body, lead: p.lead, trail: p.trail, wrap: true, escCarets: true}
}

// strCase is a string type and a value.
type strCase struct {
	pats        []patSpec
	parentCount int  // the first parentCount patterns sit on a typedef
	posix       bool // every pattern is also given as posix-pattern (then these are what counts)
	length      *rangeSpec
	value       string
}

func (c strCase) typeSpec() typeSpec {
	ts := typeSpec{Base: "string", UseTypedef: c.parentCount > 0}
	var parent, body strings.Builder
	for i, p := range c.pats {
		w := &body
		if i < c.parentCount {
			w = &parent
		}
		fmt.Fprintf(w, "      pattern %s;\n", yangQuote(p.text()))
		if c.posix {
			fmt.Fprintf(w, "      oc-ext:posix-pattern %s;\n", yangQuote(p.posixText()))
		}
	}
	if c.length != nil {
		fmt.Fprintf(&body, "      length %s;\n", yangQuote(c.length.text()))
	}
	ts.ParentBody, ts.Body = parent.String(), body.String()
	return ts
}

func (c strCase) describe() string {
	var ps []string
	for i, p := range c.pats {
		where := ""
		if i < c.parentCount {
			where = " (typedef)"
		}
		ps = append(ps, quoteGo(p.text())+where)
	}
	s := "patterns " + strings.Join(ps, " AND ")
	if c.posix {
		var qs []string
		for _, p := range c.pats {
			qs = append(qs, quoteGo(p.posixText()))
		}
		s += "; posix-patterns " + strings.Join(qs, " AND ")
	}
	if c.length != nil {
		s += "; length " + quoteGo(c.length.text())
	}
	return s
}

// expect gives the oracle's verdict for c.value. judged=false: outside the guard (the strict
// and the tolerant reading disagree) or the matcher's budget was exhausted.
func (c strCase) expect() (judged, want bool, note string) {
	lenOK := c.length == nil || c.length.contains(bi(int64(utf8.RuneCountInString(c.value))))
	if c.posix {
		ok := true
		for _, p := range c.pats {
			m, fin := p.body.fullMatch(c.value, modePOSIX)
			if !fin {
				return false, false, "matcher budget"
			}
			ok = ok && m
		}
		return true, lenOK && ok, ""
	}
	strict, tolerant := true, true
	for _, p := range c.pats {
		ms, f1 := p.xsdAST().fullMatch(c.value, modeXSD)
		mt, f2 := p.tolerantAST().fullMatch(c.value, modeXSD)
		if !f1 || !f2 {
			return false, false, "matcher budget"
		}
		strict, tolerant = strict && ms, tolerant && mt
	}
	strict, tolerant = strict && lenOK, tolerant && lenOK
	if strict != tolerant {
		return false, false, "guard: strict and anchor-tolerant readings disagree"
	}
	return true, strict, ""
}

// run evaluates the real validator on the case.
func (c strCase) run() (accepted bool, verr error, schemaErr error) {
	entry, err := parseLeaf(c.typeSpec())
	if err != nil {
		return false, nil, err
	}
	if want := len(c.pats); len(entry.Type.Pattern) > want || (c.posix && len(entry.Type.POSIXPattern) > want) {
		return false, nil, fmt.Errorf("goyang collected %d patterns / %d posix-patterns from %d statements", len(entry.Type.Pattern), len(entry.Type.POSIXPattern), want)
	}
	verr = ytypes.ValidateStringRestrictions(entry.Type, c.value)
	return verr == nil, verr, nil
}

type caseTriggers struct {
	pat     patTriggers
	posixNL bool
	dotCR   bool
}

func (c strCase) triggers(rec *ev.Rec) caseTriggers {
	var t caseTriggers
	if c.posix {
		t.posixNL = strings.Contains(c.value, "\n") && rec.Active(f28PosixNewline)
		return t // the pattern statements are not used when posix-patterns exist
	}
	hasDot := false
	for _, p := range c.pats {
		pt := p.triggers()
		t.pat.nonASCIIEnd = t.pat.nonASCIIEnd || pt.nonASCIIEnd
		t.pat.escapedDollar = t.pat.escapedDollar || pt.escapedDollar
		t.pat.caretAlt = t.pat.caretAlt || pt.caretAlt
		t.pat.caretBracket = t.pat.caretBracket || pt.caretBracket
		t.pat.empty = t.pat.empty || pt.empty
		var f reFeatures
		p.body.features(&f)
		hasDot = hasDot || f.dot
	}
	t.pat.nonASCIIEnd = t.pat.nonASCIIEnd && rec.Active(f11NonASCIIEnd)
	t.pat.escapedDollar = t.pat.escapedDollar && rec.Active(f11EscapedDollar)
	t.pat.caretAlt = t.pat.caretAlt && rec.Active(f11CaretAlt)
	t.pat.caretBracket = t.pat.caretBracket && rec.Active(f11CaretBracket)
	t.pat.empty = t.pat.empty && rec.Active(f11EmptyPattern)
	t.dotCR = hasDot && strings.Contains(c.value, "\r") && rec.Active(f29DotCR)
	return t
}

func (t caseTriggers) any() bool {
	return t.pat.nonASCIIEnd || t.pat.escapedDollar || t.pat.caretAlt || t.pat.caretBracket || t.pat.empty || t.posixNL || t.dotCR
}

func (t caseTriggers) excuse(rec *ev.Rec) {
	rec.Excuse(f11NonASCIIEnd, t.pat.nonASCIIEnd)
	rec.Excuse(f11EscapedDollar, t.pat.escapedDollar)
	rec.Excuse(f11CaretAlt, t.pat.caretAlt)
	rec.Excuse(f11CaretBracket, t.pat.caretBracket)
	rec.Excuse(f11EmptyPattern, t.pat.empty)
	rec.Excuse(f28PosixNewline, t.posixNL)
	rec.Excuse(f29DotCR, t.dotCR)
}

// twin removes the active trigger features: patterns with a pattern-level trigger are
// rewritten into their equivalent trigger-free form, line breaks that trigger a value-level
// finding are replaced by letters.
func (c strCase) twin(t caseTriggers) strCase {
	out := c
	out.pats = nil
	for _, p := range c.pats {
		pt := p.triggers()
		if (pt.nonASCIIEnd && t.pat.nonASCIIEnd) || (pt.escapedDollar && t.pat.escapedDollar) || (pt.caretAlt && t.pat.caretAlt) ||
			(pt.caretBracket && t.pat.caretBracket) || (pt.empty && t.pat.empty) {
			p = p.twin()
		}
		out.pats = append(out.pats, p)
	}
	if t.posixNL {
		out.value = strings.ReplaceAll(out.value, "\n", "N")
	}
	if t.dotCR {
		out.value = strings.ReplaceAll(out.value, "\r", "R")
	}
	return out
}

// appendToLastBranch appends atoms to the (last branch of the) regex.
func appendToLastBranch(n *reNode, atoms ...*reNode) {
	switch n.kind {
	case reAlt:
		appendToLastBranch(n.subs[len(n.subs)-1], atoms...)
	case reCat:
		n.subs = append(n.subs, atoms...)
	default:
		panic("HARNESS-BUG: regex root is neither a branch nor an alternation")
	}
}

func c06PatternWitnesses(rec *ev.Rec) {
	w := func(id string, c strCase, explain string) {
		rec.Witness(id, func() (bool, string) {
			judged, want, note := c.expect()
			if !judged {
				return false, "HARNESS-BUG: witness not judged: " + note
			}
			acc, verr, serr := c.run()
			if serr != nil {
				return false, "HARNESS-BUG: " + serr.Error()
			}
			if acc != want {
				return true, fmt.Sprintf("%s, value %s: want accept=%v, validator returned %v (%s)", c.describe(), quoteGo(c.value), want, verr, explain)
			}
			return false, ""
		})
	}
	cat := func(ns ...*reNode) *reNode { return &reNode{kind: reCat, subs: ns} }
	escLit := func(r rune) *reNode { return &reNode{kind: reLit, r: r, esc: true} }
	w(f11NonASCIIEnd, strCase{pats: []patSpec{{body: cat(litNode('a'), litNode('é'))}}, value: "aé"},
		"the last character of the pattern is not ASCII: fixYangRegexp compares a byte index with a rune index and never closes ^( ... )$")
	w(f11EscapedDollar, strCase{pats: []patSpec{{body: cat(litNode('a'), escLit('$'))}}, value: "a$"},
		"the pattern ends in an escaped $: the closing parenthesis is inserted between the backslash and the $")
	w(f11CaretAlt, strCase{pats: []patSpec{{lead: true, body: &reNode{kind: reAlt, subs: []*reNode{cat(litNode('a')), cat(litNode('b'))}}}}, value: "axx"},
		"leading ^ with a top-level alternation: no parentheses are added, so ^ binds to the first branch and $ to the last only")
	w(f11CaretBracket, strCase{pats: []patSpec{{body: cat(litNode('a'), litNode('['), litNode('^'), litNode('b'))}}, value: "a[^b"},
		"a literal ^ after an escaped [ is taken for a class negation and left unescaped: it becomes a start anchor in the middle of the expression")
	w(f11EmptyPattern, strCase{pats: []patSpec{{body: cat()}}, value: "zzz"},
		"the empty pattern is passed on as the empty, unanchored expression, which matches everything")
	w(f28PosixNewline, strCase{pats: []patSpec{{body: &reNode{kind: reRep, sub: &reNode{kind: reClass, items: []classItem{{'a', 'z'}}}, min: 1, max: -1}}}, posix: true, value: "abc\n!!!"},
		"regexp.CompilePOSIX makes ^ and $ match at every line break: one line of the value matching is enough")
	w(f29DotCR, strCase{pats: []patSpec{{body: cat(litNode('a'), &reNode{kind: reAny}, litNode('b'))}}, value: "a\rb"},
		"in XSD '.' excludes both \\n and \\r, in Go only \\n")
}

func TestC06_Pattern(t *testing.T) {
	rec := ev.Start(t, "C06")
	rec.Rule(c06Rule)
	c06PatternWitnesses(rec)
	if t.Failed() {
		return
	}
	counts := map[string]int64{}
	var cases, schemas, rejectedSchemas int64
	rapid.Check(t, func(rt *rapid.T) {
		// ---- the type
		c := strCase{}
		first := patSpec{body: genRegex(rt, "p0", 2)}
		if first.body.kind == reCat && len(first.body.subs) == 0 && rapid.IntRange(0, 3).Draw(rt, "keep-empty") != 0 {
			first.body = &reNode{kind: reCat, subs: []*reNode{litNode('a')}} // the empty pattern is legal but kept rare
		}
		// Shapes that random drawing reaches too rarely: a literal ^ after a literal [, an escaped $
		// or a non-ASCII character at the very end of the pattern.
		switch rapid.IntRange(0, 29).Draw(rt, "spice") {
		case 11:
			appendToLastBranch(first.body, litNode('['), litNode('^'), litNode(rapid.SampledFrom(reLetters).Draw(rt, "spice-l")))
		case 12:
			appendToLastBranch(first.body, &reNode{kind: reLit, r: '$', esc: true})
		case 13:
			appendToLastBranch(first.body, litNode(rapid.SampledFrom(reNonASCII).Draw(rt, "spice-n")))
		}
		c.posix = rapid.IntRange(0, 4).Draw(rt, "posix") == 0 && first.body.posixPrintable()
		if !c.posix {
			first.lead = rapid.IntRange(0, 5).Draw(rt, "lead") == 0
			first.trail = rapid.IntRange(0, 5).Draw(rt, "trail") == 0
		}
		first = first.normalize()
		c.pats = []patSpec{first}
		// a member of the first pattern (tolerant reading), from which further patterns are derived
		var m0 []rune
		first.body.drawMember(rt, "m0", &m0)
		extra := []int{0, 0, 1, 0, 1, 2, 0, 1}[rapid.IntRange(0, 7).Draw(rt, "npat")]
		for i := 0; i < extra; i++ {
			p := patSpec{body: generalize(rt, fmt.Sprintf("gen%d", i), m0)}
			if c.posix && !p.body.posixPrintable() {
				continue
			}
			if !c.posix && rapid.IntRange(0, 7).Draw(rt, fmt.Sprintf("lead%d", i)) == 0 {
				p.lead = true
			}
			c.pats = append(c.pats, p.normalize())
		}
		if rapid.IntRange(0, 3).Draw(rt, "typedef") == 0 {
			c.parentCount = rapid.IntRange(1, len(c.pats)).Draw(rt, "parent-count")
		}
		if rapid.IntRange(0, 3).Draw(rt, "with-length") == 0 {
			n := int64(len(m0))
			lo := n - int64(rapid.IntRange(0, 2).Draw(rt, "len-lo"))
			if lo < 0 {
				lo = 0
			}
			hi := n + int64(rapid.IntRange(0, 2).Draw(rt, "len-hi"))
			c.length = &rangeSpec{parts: []rangePart{{lo: bi(lo), hi: bi(hi), single: lo == hi}}}
		}

		// ---- features of the type
		var feat reFeatures
		lead, trail := false, false
		for _, p := range c.pats {
			p.body.features(&feat)
			lead, trail = lead || p.lead, trail || p.trail
		}
		typeClasses := []string{"restriction:pattern"}
		add := func(b bool, s string) {
			if b {
				typeClasses = append(typeClasses, s)
			}
		}
		add(feat.alt, "pat:alternation")
		add(feat.nonASCII, "pat:non-ascii")
		add(feat.class, "pat:class")
		add(feat.negClass, "pat:negated-class")
		add(feat.dot, "pat:dot")
		add(feat.rep, "pat:quantifier")
		add(feat.group, "pat:group")
		add(feat.metaLiteral, "pat:escaped-metachar-literal")
		add(feat.emptyBranch, "pat:empty-branch")
		add(lead, "pat:leading-caret")
		add(trail, "pat:trailing-dollar")
		add(len(c.pats) > 1, "pat:several-patterns")
		add(c.parentCount > 0, "pat:through-typedef")
		add(c.posix, "pat:posix-pattern")
		add(c.length != nil, "pat:with-length")
		add(len(c.pats) == 1 && first.text() == "", "pat:empty-pattern")
		nontrivial := feat.alt || feat.nonASCII || lead

		// ---- the schema must be acceptable to goyang ("a pattern that compiles in the schema")
		schemas++
		if _, err := parseLeaf(c.typeSpec()); err != nil {
			rejectedSchemas++
			counts["schema-rejected-by-goyang"]++
			rec.Class("schema-rejected-by-goyang")
			if rejectedSchemas*20 > schemas+40 {
				rt.Fatalf("HARNESS-BUG: goyang rejects too many generated schemas (%d of %d); last: %v\n%s", rejectedSchemas, schemas, err, c.typeSpec().yang())
			}
			return
		}

		// ---- the values: members under either reading, and mutants
		var values []string
		values = append(values, string(m0))
		for i, p := range c.pats {
			if p.lead || p.trail {
				var m []rune
				p.xsdAST().drawMember(rt, fmt.Sprintf("mx%d", i), &m)
				values = append(values, string(m))
			}
		}
		{
			var m []rune
			first.body.drawMember(rt, "m1", &m)
			values = append(values, string(m))
		}
		if c.posix && rapid.Bool().Draw(rt, "multi-line") {
			// a matching line next to arbitrary other lines
			junk := string(mutateString(rt, "junk", nil, false))
			values = append(values, string(m0)+"\n"+junk, junk+"\n"+string(m0))
		}
		nm := rapid.IntRange(2, 4).Draw(rt, "nmut")
		for i := 0; i < nm; i++ {
			src := []rune(values[rapid.IntRange(0, len(values)-1).Draw(rt, fmt.Sprintf("mut-src%d", i))])
			values = append(values, string(mutateString(rt, fmt.Sprintf("mut%d", i), src, true)))
		}
		seen := map[string]bool{}
		for vi, v := range values {
			if seen[v] {
				continue
			}
			seen[v] = true
			c.value = v
			judged, want, note := c.expect()
			acc, verr, serr := c.run()
			if serr != nil {
				rt.Fatalf("HARNESS-BUG: schema problem: %v\n%s", serr, c.typeSpec().yang())
			}
			cases++
			classes := append([]string{}, typeClasses...)
			switch {
			case !judged:
				classes = append(classes, "unjudged:"+strings.SplitN(note, ":", 2)[0])
			case want:
				classes = append(classes, "verdict:accept")
			default:
				classes = append(classes, "verdict:reject")
			}
			if vi == 0 && len(c.pats) == 1 && c.length == nil {
				classes = append(classes, "member-of-single-pattern")
			}
			if strings.ContainsAny(v, "\n\r") {
				classes = append(classes, "value-with-line-break")
			}
			for _, cl := range classes {
				counts[cl]++
			}
			rec.Case("pat|"+c.describe()+"|"+v, nontrivial && judged, classes...)
			if cases == 1 || rec.WantSample() {
				rec.Sample(map[string]interface{}{"type": c.describe(), "value": v, "judged": judged, "want_accept": want, "got_error": errString(verr)})
			}
			if !judged || acc == want {
				continue
			}
			// mismatch: excused only inside the trigger region of an open finding, and only if
			// the failure disappears together with the trigger feature
			tr := c.triggers(rec)
			if tr.any() {
				tw := c.twin(tr)
				tj, twant, _ := tw.expect()
				tacc, tverr, tserr := tw.run()
				if tserr != nil {
					rt.Fatalf("HARNESS-BUG: twin schema problem: %v\n%s", tserr, tw.typeSpec().yang())
				}
				if !tj || tacc == twant {
					tr.excuse(rec)
					continue
				}
				rt.Fatalf("pattern verdict differs from whole-string matching, also without the trigger features of the open findings\n type: %s\n value: %s\n want accept=%v, validator returned: %v\n twin type: %s\n twin value: %s\n twin: want accept=%v, validator returned: %v",
					c.describe(), quoteGo(v), want, verr, tw.describe(), quoteGo(tw.value), twant, tverr)
			}
			rt.Fatalf("pattern verdict differs from whole-string matching\n type: %s\n value: %s (%d characters)\n want accept=%v, validator returned: %v",
				c.describe(), quoteGo(v), utf8.RuneCountInString(v), want, verr)
		}
	})
	if rejectedSchemas*50 > schemas && !t.Failed() && schemas >= 500 {
		t.Errorf("INCONCLUSIVE: generator health: goyang rejected %d of %d generated schemas (> 2%%)", rejectedSchemas, schemas)
	}
	healthCheck(t, cases, counts, 2, "verdict:accept", "verdict:reject", "pat:alternation", "pat:non-ascii", "pat:leading-caret", "pat:trailing-dollar",
		"pat:class", "pat:negated-class", "pat:dot", "pat:quantifier", "pat:several-patterns", "pat:through-typedef", "pat:posix-pattern",
		"pat:with-length", "member-of-single-pattern")
	healthCheck(t, cases, counts, 10, "verdict:accept", "verdict:reject")
}
