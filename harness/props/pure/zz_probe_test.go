package pure

import (
	"testing"
	"time"
	"fmt"

	"github.com/openconfig/ygot/ytypes"
)

func TestZZProbe(t *testing.T) {
	t0 := time.Now()
	for i := 0; i < 200; i++ {
		if _, err := parseLeaf(typeSpec{Base: "int8", Body: "      range \"min..5 | 10 | 20..max\";\n"}); err != nil {
			t.Fatal(err)
		}
	}
	fmt.Println("parse cost", time.Since(t0)/200)
	e, err := parseLeaf(typeSpec{Base: "int8", Body: "      range \"min..5 | 10 | 20..max\";\n"})
	fmt.Println(e.Type.Range, err)
	e, err = parseLeaf(typeSpec{Base: "decimal64", Body: "      fraction-digits 2;\n      range \"min..-1.5 | 0.81 | 20..max\";\n"})
	fmt.Println(e.Type.Range, e.Type.FractionDigits, err)
	fmt.Println(ytypes.ValidateDecimalRestrictions(e.Type, 0.81))
	e, err = parseLeaf(typeSpec{Base: "string", UseTypedef: true, ParentBody: "      length \"1..10\";\n      pattern " + yangQuote(`a\[^b`) + ";\n", Body: "      length \"2..max\";\n      pattern " + yangQuote(`.*`) + ";\n      oc-ext:posix-pattern " + yangQuote(`^[a-z]+$`) + ";\n"})
	if err != nil { t.Fatal(err) }
	fmt.Println(e.Type.Length, e.Type.Pattern, e.Type.POSIXPattern)
	for _, s := range []string{"abc", "abc\n!!!", "!!!\nabc", "a[^b"} {
		fmt.Printf("%q -> %v\n", s, ytypes.ValidateStringRestrictions(e.Type, s))
	}
	e, _ = parseLeaf(typeSpec{Base: "string", Body: "      pattern " + yangQuote(`a\[^b`) + ";\n"})
	fmt.Printf("%q %v\n", e.Type.Pattern, ytypes.ValidateStringRestrictions(e.Type, "a[^b"))
	e, _ = parseLeaf(typeSpec{Base: "string", Body: "      pattern " + yangQuote(``) + ";\n"})
	fmt.Printf("%q %v\n", e.Type.Pattern, ytypes.ValidateStringRestrictions(e.Type, "zzz"))
	e, _ = parseLeaf(typeSpec{Base: "string", Body: "      pattern " + yangQuote(`a.b`) + ";\n"})
	fmt.Printf("%q %v %v\n", e.Type.Pattern, ytypes.ValidateStringRestrictions(e.Type, "a\rb"), ytypes.ValidateStringRestrictions(e.Type, "a\nb"))
	e, err = parseLeaf(typeSpec{Base: "binary", Body: "      length \"2..3 | 5\";\n"})
	fmt.Println(e.Type.Length, err, e.Type.Kind)
}
