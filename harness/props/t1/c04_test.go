package t1

import (
	"fmt"
	"reflect"
	"strings"
	"testing"

	"github.com/openconfig/ygot/ygot"
	"pgregory.net/rapid"
	"verifharness/ev"
	"verifharness/model"
	"verifharness/th"
	"verifharness/variants"
)

// C04: DeepCopy / MergeStructs results share no mutable memory with their inputs (DESIGN.md 5/C04).

const (
	F7UL  = "F7-deepcopy-alias-unkeyed"
	F7BIN = "F7-deepcopy-alias-binary-ll"
	F7ULL = "F7-deepcopy-alias-union-ll"
	F7KEY = "F7-deepcopy-alias-wrapper-union-key"
	F50   = "F50-deepcopy-drops-empty-binary"
)

var c04Variants = []string{"vtu", "vtw", "vocc", "voccw", "vocu", "vtu2"}

const c04Rule = "variant x schema-conforming tree (biased to unkeyed lists, []Binary leaf-lists, binary / union leaves, union leaf-lists, ordered lists, wrapper unions) " +
	"x {DeepCopy(t) | MergeStructs(a,b[,overwrite]) of a compatible split (a,b) of t} x mutated side x mutation in {full scribble of all reachable mutable memory, random subset, one targeted location}; " +
	"oracle: observe(DeepCopy(t)) == model and t unchanged; after the in-place mutation of one side the other side still observes equal to its model " +
	"(harness observer, plain reflection); for merges: mutate r -> a and b unchanged, mutate a and/or b -> r unchanged; " +
	"non-trivial = the tree holds >=1 slice-typed value (leaf-list, binary, unkeyed-list entry) or union value in a struct at depth >= 2; distinct by variant+operation+mutation+tree(s)"

// c04Witnesses replays the fixed minimal inputs of the aliasing findings.
func c04Witnesses(rec *ev.Rec) {
	rec.Witness(F7UL, func() (bool, string) {
		v := variants.Get("vtu")
		m := witnessTree(v, func(f *model.FieldInfo) bool { return f.Kind == model.FUList })
		if m == nil {
			return noWitnessTree()
		}
		orig := model.Build(m)
		cp, err := ygot.DeepCopy(orig)
		if err != nil {
			return true, "DeepCopy: " + err.Error()
		}
		sh := sharedMem(cp, orig)
		for _, l := range collectMem(cp) {
			if l.Kind == "ulist-elem" {
				l.Mut()
			}
		}
		if d := treeDiff(m, model.ObserveNorm(v, orig), dOpts{}); len(d) > 0 {
			return true, fmt.Sprintf("vtu: overwriting the fields of the unkeyed-list element of DeepCopy(t) changed t (shared: %s):%s\ntree:\n%s", sharedString(sh), joinItems(d), m.Dump())
		}
		return false, ""
	})
	rec.Witness(F7BIN, func() (bool, string) {
		v := variants.Get("vtu")
		m := witnessTree(v, func(f *model.FieldInfo) bool {
			return f.Kind == model.FLeafList && !f.ElemUnion && f.Type.VKind() == model.KBin
		})
		if m == nil {
			return noWitnessTree()
		}
		orig := model.Build(m)
		cp, err := ygot.DeepCopy(orig)
		if err != nil {
			return true, "DeepCopy: " + err.Error()
		}
		for _, l := range collectMem(cp) {
			if l.Kind == "ll-bin" {
				l.Mut()
			}
		}
		if d := treeDiff(m, model.ObserveNorm(v, orig), dOpts{}); len(d) > 0 {
			return true, fmt.Sprintf("vtu: overwriting the bytes of a []Binary leaf-list element of DeepCopy(t) changed t:%s\ntree:\n%s", joinItems(d), m.Dump())
		}
		return false, ""
	})
	rec.Witness(F7ULL, func() (bool, string) {
		for _, vn := range []string{"vtw", "vtu"} {
			v := variants.Get(vn)
			m := witnessTree(v, func(f *model.FieldInfo) bool {
				return f.Kind == model.FLeafList && f.ElemUnion && hasBinaryMember(f.Type)
			})
			if m == nil {
				return noWitnessTree()
			}
			orig := model.Build(m)
			cp, err := ygot.DeepCopy(orig)
			if err != nil {
				return true, "DeepCopy: " + err.Error()
			}
			for _, l := range collectMem(cp) {
				if l.Kind == "ll-wrapper" || l.Kind == "ll-ubin" || l.Kind == "ll-wrapper-bin" {
					l.Mut()
				}
			}
			if d := treeDiff(m, model.ObserveNorm(v, orig), dOpts{}); len(d) > 0 {
				return true, fmt.Sprintf("%s: overwriting the value behind a union-typed leaf-list element of DeepCopy(t) changed t:%s\ntree:\n%s", vn, joinItems(d), m.Dump())
			}
		}
		return false, ""
	})
	rec.Witness(F7KEY, func() (bool, string) {
		v := variants.Get("vtw")
		m := witnessTree(v, func(f *model.FieldInfo) bool { return f.Kind == model.FList && keyHasWrapperUnion(f) })
		if m == nil {
			return noWitnessTree()
		}
		orig := model.Build(m)
		cp, err := ygot.DeepCopy(orig)
		if err != nil {
			return true, "DeepCopy: " + err.Error()
		}
		for _, l := range collectMem(cp) {
			if l.Kind == "key-pointee" {
				l.Mut()
			}
		}
		if d := treeDiff(m, model.ObserveNorm(v, orig), dOpts{}); len(d) > 0 {
			return true, fmt.Sprintf("vtw: overwriting the wrapper-union struct behind a map key of DeepCopy(t) changed the key in t:%s\ntree:\n%s", joinItems(d), m.Dump())
		}
		return false, ""
	})
	rec.Witness(F50, func() (bool, string) {
		v := variants.Get("vtu")
		m := witnessTreeVal(v, func(f *model.FieldInfo) bool {
			return f.Kind == model.FLeaf && !f.ElemUnion && f.Type.VKind() == model.KBin && model.LenOK(f.Type.Length, 0)
		}, model.Val{K: model.KBin, B: []byte{}})
		if m == nil {
			return noWitnessTree()
		}
		cp, err := ygot.DeepCopy(model.Build(m))
		if err != nil {
			return true, "DeepCopy: " + err.Error()
		}
		if d := treeDiff(m, model.ObserveNorm(v, cp), dOpts{}); len(d) > 0 {
			return true, fmt.Sprintf("vtu: DeepCopy of a tree with a set, zero-length binary leaf:%s\ntree:\n%s", joinItems(d), m.Dump())
		}
		return false, ""
	})
}

func keyHasWrapperUnion(f *model.FieldInfo) bool { return wrapperUnionKey(f) }

// aliasFinding attributes one difference to the trigger region + signature of a known aliasing finding:
// the region comes from where the difference sits in the model, the signature from the address-based
// report of which kinds of memory the two Go trees share.
func aliasFinding(it dItem, shared map[string]string) string {
	switch {
	case it.InUL && shared["ulist-elem"] != "":
		return F7UL
	case it.F != nil && it.F.Kind == model.FLeafList && !it.F.ElemUnion && it.F.Type.VKind() == model.KBin && shared["ll-bin"] != "":
		return F7BIN
	case it.F != nil && it.F.Kind == model.FLeafList && it.F.ElemUnion && (shared["ll-wrapper"] != "" || shared["ll-ubin"] != "" || shared["ll-wrapper-bin"] != ""):
		return F7ULL
	case it.InWK && shared["key-pointee"] != "":
		return F7KEY
	}
	return ""
}

// judgeAlias reports every difference that is not the exact shape of an active known finding.
func judgeAlias(ex *excuser, items []dItem, shared map[string]string) (bad []dItem) {
	for _, it := range items {
		if id := aliasFinding(it, shared); id != "" && ex.excuse(id, true) {
			continue
		}
		bad = append(bad, it)
	}
	return bad
}

func unionMaps(ms ...map[string]string) map[string]string {
	out := map[string]string{}
	for _, m := range ms {
		for k, v := range m {
			out[k] = v
		}
	}
	return out
}

func c04Interesting(f *model.FieldInfo) bool {
	switch f.Kind {
	case model.FUList, model.FOrdList, model.FLeafList:
		return true
	case model.FLeaf:
		return f.ElemUnion || hasBinaryMember(f.Type)
	}
	return false
}

var c04Want = map[string]func(*model.FieldInfo) bool{}

func genC04Tree(rt *rapid.T, v *model.Variant) *model.Node {
	v.MustInit()
	o := model.GenOpts{}
	if rapid.IntRange(0, 9).Draw(rt, "bias") < 6 {
		w, ok := c04Want[v.Name]
		if !ok {
			w = wantBelow(c04Interesting)
			c04Want[v.Name] = w
		}
		o.Want = w
	}
	return model.GenTree(rt, v, o)
}

// c04Classes labels what the aliasing-relevant content of a tree is; nt is the non-triviality rule.
func c04Classes(m *model.Node) (cl []string, nt bool) {
	seen := map[string]bool{}
	var walk func(n *model.Node, depth int)
	mark := func(c string, depth int) {
		seen[c] = true
		if depth >= 2 {
			nt = true
		}
	}
	walk = func(n *model.Node, depth int) {
		for _, f := range n.SI.Fields {
			switch f.Kind {
			case model.FLeaf:
				v, ok := n.Leaf[f.Name]
				if !ok {
					continue
				}
				if f.ElemUnion {
					mark("c04:union-leaf", depth)
					if v.K == model.KBin {
						mark("c04:union-of-binary", depth)
					}
				} else if v.K == model.KBin {
					mark("c04:binary-leaf", depth)
					if len(v.B) == 0 {
						seen["c04:empty-binary-leaf"] = true
					}
				}
			case model.FLeafList:
				l := n.LL[f.Name]
				if len(l) == 0 {
					continue
				}
				mark("c04:leaf-list", depth)
				if f.ElemUnion {
					mark("c04:union-leaf-list", depth)
				} else if f.Type.VKind() == model.KBin {
					mark("c04:binary-leaf-list", depth)
				}
			case model.FCont:
				if c, ok := n.Cont[f.Name]; ok {
					walk(c, depth+1)
				}
			case model.FList, model.FOrdList:
				for _, e := range n.List[f.Name] {
					if keyHasWrapperUnion(f) {
						seen["c04:wrapper-union-key"] = true
					}
					walk(e.N, depth+1)
				}
			case model.FUList:
				for _, e := range n.UList[f.Name] {
					mark("c04:unkeyed-entry", depth)
					walk(e, depth+1)
				}
			}
		}
	}
	walk(m, 0)
	for c := range seen {
		cl = append(cl, c)
	}
	return cl, nt
}

// mutate applies the drawn in-place mutation to gs and describes it.
func mutate(rt *rapid.T, gs ygot.GoStruct, mode string) string {
	locs := collectMem(gs)
	if len(locs) == 0 {
		return "nothing to mutate"
	}
	switch mode {
	case "full":
		for _, l := range locs {
			l.Mut()
		}
		return fmt.Sprintf("full scribble of %d locations", len(locs))
	case "single":
		i := rapid.IntRange(0, len(locs)-1).Draw(rt, "loc")
		locs[i].Mut()
		return fmt.Sprintf("one location: %s at %s", locs[i].Kind, locs[i].Path)
	}
	var d []string
	pct := rapid.SampledFrom([]int{10, 30, 60}).Draw(rt, "subsetPct")
	for _, l := range locs {
		if rapid.IntRange(0, 99).Draw(rt, "hit") < pct {
			l.Mut()
			if len(d) < 12 {
				d = append(d, l.Kind+"@"+l.Path)
			}
		}
	}
	return fmt.Sprintf("subset (%d%%): %s", pct, strings.Join(d, ", "))
}

func drawMode(rt *rapid.T) string {
	return rapid.SampledFrom([]string{"full", "full", "subset", "single", "single"}).Draw(rt, "mutation")
}

func TestC04_DeepCopy(t *testing.T) {
	rec := ev.Start(t, "C04")
	rec.Rule(c04Rule)
	c04Witnesses(rec)
	checkWitnesses(t)
	cnt := newCounter()
	rapid.Check(t, func(rt *rapid.T) {
		v := th.PickVariant(rt, c04Variants...)
		m := genC04Tree(rt, v)
		side := rapid.SampledFrom([]string{"copy", "original"}).Draw(rt, "side")
		mode := drawMode(rt)
		cl, nt := c04Classes(m)
		classes := uniq(append(append(th.TreeClasses(v, m.Stat()), cl...), "op:deepcopy", "mut:"+mode, "side:"+side))
		rec.Case("deepcopy|"+v.Name+"|"+side+"|"+mode+"|"+m.Dump(), nt, classes...)
		cnt.add(classes)
		th.SampleTree(rec, v, m, "DeepCopy, mutate "+side+" ("+mode+")")

		ex := newExcuser(rec)
		orig := model.Build(m)
		cpI, err := ygot.DeepCopy(orig)
		if err != nil {
			rt.Fatalf("DeepCopy failed on a schema-conforming tree (variant %s): %v\ntree:\n%s", v.Name, err, m.Dump())
		}
		cp := cpI
		var bad []dItem
		for _, it := range treeDiff(m, model.ObserveNorm(v, cp), dOpts{}) {
			if ex.excuse(F50, isF50(it)) {
				continue
			}
			bad = append(bad, it)
		}
		if len(bad) > 0 {
			rt.Fatalf("DeepCopy(t) is not equal to t (variant %s; a = model of t, b = observed copy):%s\ntree:\n%s", v.Name, joinItems(bad), m.Dump())
		}
		if d := treeDiff(m, model.ObserveNorm(v, orig), dOpts{}); len(d) > 0 {
			rt.Fatalf("DeepCopy changed its input (variant %s):%s\ntree:\n%s", v.Name, joinItems(d), m.Dump())
		}
		// expected observation of the copy: the model minus what F50 (if active) dropped
		mcp := model.ObserveNorm(v, cp)
		shared := sharedMem(cp, orig)
		if p, ok := shared["map"]; ok {
			rt.Fatalf("DeepCopy(t) returns a tree whose list map at %s is the very map object of t (variant %s)\ntree:\n%s", p, v.Name, m.Dump())
		}
		if p, ok := shared["bin-spare"]; ok {
			rt.Fatalf("DeepCopy(t) returns a tree whose zero-length binary value at %s is the slice of t itself, spare capacity included: an append on one side writes where an append on the other side writes (variant %s)\ntree:\n%s", p, v.Name, m.Dump())
		}
		target, other, want := cp, orig, m
		if side == "original" {
			target, other, want = orig, cp, mcp
		}
		desc := mutate(rt, target, mode)
		items := treeDiff(want, model.ObserveNorm(v, other), dOpts{})
		if bad := judgeAlias(ex, items, shared); len(bad) > 0 {
			rt.Fatalf("mutating the %s in place changed the other side of DeepCopy (variant %s)\nmutation: %s\nmemory shared by address: %s\n(a = expected, b = observed after the mutation):%s\ntree:\n%s",
				side, v.Name, desc, sharedString(shared), joinItems(bad), m.Dump())
		}
		if mode == "full" && len(shared) > 0 && len(items) == 0 {
			rt.Fatalf("HARNESS-BUG: copy and original share memory (%s) but the full scribble of the %s was not observable\ntree:\n%s", sharedString(shared), side, m.Dump())
		}
	})
	cnt.require(t, "C04", 4, "tree:unkeyed-entry", "tree:ordered-entry", "c04:binary-leaf-list", "c04:binary-leaf", "c04:union-leaf", "c04:union-leaf-list",
		"mut:full", "mut:single", "mut:subset", "side:copy", "side:original", "variant:vtw", "variant:voccw")
	cnt.require(t, "C04", 1.5, "c04:union-of-binary", "c04:wrapper-union-key")
}

// isF50: a set, zero-length binary leaf of t is unset in the copy / merge result.
func isF50(it dItem) bool {
	if it.F == nil || it.F.Kind != model.FLeaf || it.F.ElemUnion || it.A == nil || it.B == nil {
		return false
	}
	va, oka := it.A.Leaf[it.F.Name]
	_, okb := it.B.Leaf[it.F.Name]
	return oka && !okb && va.K == model.KBin && len(va.B) == 0
}

func TestC04_Merge(t *testing.T) {
	rec := ev.Start(t, "C04")
	rec.Rule(c04Rule)
	c04Witnesses(rec)
	checkWitnesses(t)
	cnt := newCounter()
	rapid.Check(t, func(rt *rapid.T) {
		v := th.PickVariant(rt, c04Variants...)
		m := genC04Tree(rt, v)
		overwrite := rapid.Bool().Draw(rt, "overwrite")
		// with the overwrite option leaf conflicts are legal input: b's value wins, and it must be a copy
		sp := &splitter{rt: rt, v: v, compat: !overwrite || rapid.Bool().Draw(rt, "compat"), leafConflictsOnly: true}
		a, b := sp.split(m)
		dir := rapid.SampledFrom([]string{"result", "result", "a", "b", "a+b"}).Draw(rt, "side")
		mode := drawMode(rt)
		cl, nt := c04Classes(m)
		classes := uniq(append(append(th.TreeClasses(v, m.Stat()), cl...), "op:merge", "mut:"+mode, "side:"+dir, fmt.Sprintf("overwrite:%v", overwrite)))
		var opts []ygot.MergeOpt
		if overwrite {
			opts = append(opts, &ygot.MergeOverwriteExistingFields{})
		}
		ga, gb := model.Build(a), model.Build(b)
		// MergeEmptyMaps: empty non-nil maps of the inputs are carried into the result (an empty and an
		// absent list are the same data, so the model does not change)
		emptyMaps := rapid.IntRange(0, 3).Draw(rt, "mergeEmptyMaps") == 0
		if emptyMaps {
			opts = append(opts, &ygot.MergeEmptyMaps{})
			for _, g := range []ygot.GoStruct{ga, gb} {
				for _, n := range goNodes(g) {
					sv := n.ptr.Elem()
					for i := 0; i < sv.NumField(); i++ {
						if fv := sv.Field(i); fv.Kind() == reflect.Map && fv.IsNil() && rapid.IntRange(0, 2).Draw(rt, "emptymap") == 0 {
							fv.Set(reflect.MakeMap(fv.Type()))
							classes = append(classes, "c04:empty-map-input")
						}
					}
				}
			}
		}
		r, err := ygot.MergeStructs(ga, gb, opts...)
		if err != nil {
			classes = append(classes, "merge:failed")
		} else {
			classes = append(classes, "merge:ok")
		}
		rec.Case(fmt.Sprintf("merge|%s|%s|%s|%v|%s|%s", v.Name, dir, mode, overwrite, a.Dump(), b.Dump()), nt && err == nil, classes...)
		cnt.add(classes)
		if rec.WantSample() {
			rec.Sample(map[string]string{"variant": v.Name, "a": th.Trunc(a.Dump(), 800), "b": th.Trunc(b.Dump(), 800), "case": "MergeStructs, mutate " + dir + " (" + mode + ")"})
		}
		if err != nil {
			return // whether this merge may fail is the subject of C05
		}
		ctx := func() string {
			return fmt.Sprintf("variant %s overwrite=%v\ntree a:\n%s\ntree b:\n%s", v.Name, overwrite, a.Dump(), b.Dump())
		}
		for _, x := range []struct {
			n  string
			m  *model.Node
			gs ygot.GoStruct
		}{{"a", a, ga}, {"b", b, gb}} {
			if d := treeDiff(x.m, model.ObserveNorm(v, x.gs), dOpts{}); len(d) > 0 {
				rt.Fatalf("MergeStructs changed its input %s:%s\n%s", x.n, joinItems(d), ctx())
			}
		}
		ex := newExcuser(rec)
		mr := model.ObserveNorm(v, r)
		shA, shB := sharedMem(r, ga), sharedMem(r, gb)
		// a Go map shared between the result and an input is shared mutable memory whatever it holds at
		// the moment: adding a list entry on one side adds it on the other
		for _, sh := range []struct {
			n string
			m map[string]string
		}{{"a", shA}, {"b", shB}} {
			if p, ok := sh.m["map"]; ok {
				rt.Fatalf("MergeStructs(a,b) returns a tree whose list map at %s is the very map object of input %s (emptyMaps option: %v)\n%s", p, sh.n, emptyMaps, ctx())
			}
			if p, ok := sh.m["bin-spare"]; ok {
				rt.Fatalf("MergeStructs(a,b) returns a tree whose zero-length binary value at %s is the slice of input %s itself, spare capacity included\n%s", p, sh.n, ctx())
			}
		}
		var desc string
		type chk struct {
			name   string
			want   *model.Node
			gs     ygot.GoStruct
			shared map[string]string
		}
		var checks []chk
		switch dir {
		case "result":
			desc = mutate(rt, r, mode)
			checks = []chk{{"input a", a, ga, shA}, {"input b", b, gb, shB}}
		case "a":
			desc = mutate(rt, ga, mode)
			checks = []chk{{"the merge result", mr, r, shA}, {"input b", b, gb, sharedMem(ga, gb)}}
		case "b":
			desc = mutate(rt, gb, mode)
			checks = []chk{{"the merge result", mr, r, shB}, {"input a", a, ga, sharedMem(ga, gb)}}
		default:
			desc = mutate(rt, ga, mode) + "; " + mutate(rt, gb, mode)
			checks = []chk{{"the merge result", mr, r, unionMaps(shA, shB)}}
		}
		for _, c := range checks {
			items := treeDiff(c.want, model.ObserveNorm(v, c.gs), dOpts{})
			if bad := judgeAlias(ex, items, c.shared); len(bad) > 0 {
				rt.Fatalf("mutating %s of MergeStructs(a,b) in place changed %s\nmutation: %s\nmemory shared by address: %s\n(a = expected, b = observed after the mutation):%s\n%s",
					dir, c.name, desc, sharedString(c.shared), joinItems(bad), ctx())
			}
		}
	})
	cnt.require(t, "C04", 50, "merge:ok")
	cnt.require(t, "C04", 4, "tree:unkeyed-entry", "tree:ordered-entry", "c04:binary-leaf-list", "c04:union-leaf-list", "side:result", "side:a", "side:b")
}

// ---- fixed minimal trees for witnesses -------------------------------------------------------------------

// simpleVal makes a fixed value for a leaf type, preferring kinds that need no schema knowledge.
func simpleVal(lt *model.LType, i int) (model.Val, bool) { return simpleValK(lt, i, false) }

func simpleValK(lt *model.LType, i int, key bool) (model.Val, bool) {
	if lt == nil {
		return model.Val{}, false
	}
	if lt.IsUnion() {
		for _, m := range lt.Members {
			if m.VKind() == model.KBin && !key {
				return model.Val{K: model.KBin, B: []byte{1, 2, byte(i)}}, true
			}
		}
		for _, m := range lt.Members {
			if v, ok := simpleValK(m, i, key); ok && !m.IsUnion() {
				return v, true
			}
		}
		return model.Val{}, false
	}
	k := lt.VKind()
	switch {
	case k == model.KBin && !key:
		return model.Val{K: model.KBin, B: []byte{1, 2, byte(i)}}, true
	case k == model.KStr && len(lt.Patterns) == 0:
		return model.Val{K: model.KStr, S: fmt.Sprintf("w%d", i)}, true
	case k.Unsigned() && len(lt.Range) == 0:
		return model.Val{K: k, U: uint64(1 + i)}, true
	case k.Signed() && len(lt.Range) == 0:
		return model.Val{K: k, I: int64(1 + i)}, true
	case k == model.KEnum && len(lt.Enum) > i && lt.GoEnum != nil:
		return model.EnumVal(lt, lt.Enum[i]), true
	case k == model.KBool && !key:
		return model.Val{K: model.KBool, Bool: true}, true
	}
	return model.Val{}, false
}

// witnessTree builds the minimal tree that reaches (through containers only) the first field
// satisfying pred and populates it with fixed content.
func witnessTree(v *model.Variant, pred func(*model.FieldInfo) bool) *model.Node {
	return witnessTreeVal(v, pred, model.Val{})
}

func witnessTreeVal(v *model.Variant, pred func(*model.FieldInfo) bool, leafVal model.Val) *model.Node {
	v.MustInit()
	var build func(si *model.StructInfo, depth int) *model.Node
	build = func(si *model.StructInfo, depth int) *model.Node {
		if depth > 8 {
			return nil
		}
		for _, f := range si.Fields {
			if !pred(f) {
				continue
			}
			n := model.NewNode(si)
			if populate(n, f, leafVal) {
				return n
			}
		}
		for _, f := range si.Fields {
			if f.Kind != model.FCont {
				continue
			}
			if c := build(f.Child, depth+1); c != nil {
				n := model.NewNode(si)
				n.Cont[f.Name] = c
				return n
			}
		}
		return nil
	}
	return build(v.Root, 0)
}

// fillLeaves sets the first few simple leaves of n.
func fillLeaves(n *model.Node, i int) {
	cnt := 0
	for _, f := range n.SI.Fields {
		if f.Kind == model.FLeaf && !f.IsKey && cnt < 2 {
			if val, ok := simpleVal(f.Type, i); ok {
				n.Leaf[f.Name] = val
				cnt++
			}
		}
	}
}

func populate(n *model.Node, f *model.FieldInfo, leafVal model.Val) bool {
	switch f.Kind {
	case model.FLeaf:
		if leafVal.K != model.KNone {
			n.Leaf[f.Name] = leafVal
			return true
		}
		val, ok := simpleVal(f.Type, 0)
		if ok {
			n.Leaf[f.Name] = val
		}
		return ok
	case model.FLeafList:
		v0, ok := simpleVal(f.Type, 0)
		v1, _ := simpleVal(f.Type, 1)
		if ok {
			n.LL[f.Name] = []model.Val{v0, v1}
		}
		return ok
	case model.FUList:
		for i := 0; i < 2; i++ {
			e := model.NewNode(f.Child)
			fillLeaves(e, i)
			n.UList[f.Name] = append(n.UList[f.Name], e)
		}
		return true
	case model.FList, model.FOrdList:
		for i := 0; i < 3; i++ {
			key := make([]model.Val, len(f.KeyFields))
			for j, kf := range f.KeyFields {
				val, ok := simpleValK(kf.Type, i, true)
				if !ok {
					return false
				}
				key[j] = val
			}
			e := model.NewEntry(f, key)
			fillLeaves(e.N, i)
			n.List[f.Name] = append(n.List[f.Name], e)
		}
		return true
	case model.FCont:
		c := model.NewNode(f.Child)
		fillLeaves(c, 0)
		n.Cont[f.Name] = c
		return true
	}
	return false
}
