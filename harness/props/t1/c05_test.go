package t1

import (
	"fmt"
	"sort"
	"strings"
	"testing"

	"github.com/openconfig/ygot/ygot"
	"pgregory.net/rapid"
	"verifharness/ev"
	"verifharness/model"
	"verifharness/th"
	"verifharness/variants"
)

// C05: MergeStructs = set union with conflict detection (DESIGN.md 5/C05).

const (
	F8   = "F8-merge-binary-concat"
	F51  = "F51-merge-unsets-empty-leaf"
	F52  = "F52-merge-ordered-partial-overlap-accepted"
	c05R = "variant x base tree x random split/overlay into (a,b) (modes: disjoint, compatible, rare conflicts, mixed; per field: a only, b only, equal on both sides, conflicting leaf value, " +
		"leaf-list / unkeyed list equal | split | partial overlap | permuted, ordered list equal | disjoint | b subset of a | a strict subset of b | permuted | partial overlap) x {no option, MergeOverwriteExistingFields}; " +
		"oracle: reference merge on the model transcribed from the statement: success <=> no leaf set in both with different values (ignored with overwrite) and leaf-lists/unkeyed lists set in both equal or disjoint " +
		"and ordered lists disjoint or b's keys a same-order subsequence of a's; on success observe(result) == union (b's leaf values win with overwrite; concatenated lists compared as multisets); " +
		"both inputs observe unchanged after the call (also on failure); without overwrite, when both orders succeed the results are equal as sets; " +
		"non-trivial = the pair overlaps in >=1 list entry (same keyed/ordered entry on both sides, or an unkeyed list populated on both sides); distinct by variant+option+a+b"
)

func c05Witnesses(rec *ev.Rec) {
	rec.Witness(F8, func() (bool, string) {
		v := variants.Get("vtu")
		isBin := func(f *model.FieldInfo) bool {
			return f.Kind == model.FLeaf && !f.ElemUnion && f.Type.VKind() == model.KBin && len(f.Type.Length) == 0
		}
		a := witnessTreeVal(v, isBin, model.Val{K: model.KBin, B: []byte{1, 2}})
		b := witnessTreeVal(v, isBin, model.Val{K: model.KBin, B: []byte{3}})
		if a == nil || b == nil {
			return noWitnessTree()
		}
		r, err := ygot.MergeStructs(model.Build(a), model.Build(b))
		if err == nil {
			return true, fmt.Sprintf("vtu: MergeStructs of two trees whose binary leaf differs ([1 2] vs [3]) succeeds; result:\n%s", model.ObserveNorm(v, r).Dump())
		}
		return false, ""
	})
	rec.Witness(F50, func() (bool, string) {
		v := variants.Get("vtu")
		m := witnessTreeVal(v, func(f *model.FieldInfo) bool {
			return f.Kind == model.FLeaf && !f.ElemUnion && f.Type.VKind() == model.KBin && model.LenOK(f.Type.Length, 0)
		}, model.Val{K: model.KBin, B: []byte{}})
		if m == nil {
			return noWitnessTree()
		}
		r, err := ygot.MergeStructs(model.Build(m), model.Build(m))
		if err != nil {
			return true, "MergeStructs: " + err.Error()
		}
		if d := treeDiff(m, model.ObserveNorm(v, r), dOpts{}); len(d) > 0 {
			return true, fmt.Sprintf("vtu: MergeStructs(t, t) of a tree with a set, zero-length binary leaf:%s\ntree:\n%s", joinItems(d), m.Dump())
		}
		return false, ""
	})
	rec.Witness(F51, func() (bool, string) {
		v := variants.Get("vtu")
		a := witnessTreeVal(v, func(f *model.FieldInfo) bool {
			return f.Kind == model.FLeaf && !f.ElemUnion && f.Type.VKind() == model.KEmpty
		}, model.Val{K: model.KEmpty})
		if a == nil {
			return noWitnessTree()
		}
		// b: the same containers, the leaf unset
		b := a.Clone()
		var strip func(n *model.Node)
		strip = func(n *model.Node) {
			for name, val := range n.Leaf {
				if val.K == model.KEmpty {
					delete(n.Leaf, name)
				}
			}
			for _, c := range n.Cont {
				strip(c)
			}
		}
		strip(b)
		r, err := ygot.MergeStructs(model.Build(a), model.Build(b))
		if err != nil {
			return true, "MergeStructs: " + err.Error()
		}
		if d := treeDiff(a, model.ObserveNorm(v, r), dOpts{}); len(d) > 0 {
			return true, fmt.Sprintf("vtu: MergeStructs(a, b) loses a's leaf of type empty when b holds the container but not the leaf:%s\ntree a:\n%s", joinItems(d), a.Dump())
		}
		return false, ""
	})
	rec.Witness(F52, func() (bool, string) {
		v := variants.Get("vtu")
		base := witnessTree(v, func(f *model.FieldInfo) bool { return f.Kind == model.FOrdList })
		if base == nil {
			return noWitnessTree()
		}
		// base holds entries [k0 k1 k2]; a = [k0 k1], b = [k2 k0]: partial overlap whose first key is new to a
		a, b := base.Clone(), base.Clone()
		var edit func(n *model.Node, f func(n *model.Node, name string))
		edit = func(n *model.Node, f func(n *model.Node, name string)) {
			for name := range n.List {
				if n.SI.ByName[name].Kind == model.FOrdList {
					f(n, name)
				}
			}
			for _, c := range n.Cont {
				edit(c, f)
			}
		}
		edit(a, func(n *model.Node, name string) { n.List[name] = n.List[name][:2] })
		edit(b, func(n *model.Node, name string) { l := n.List[name]; n.List[name] = []*model.Entry{l[2], l[0]} })
		r, err := ygot.MergeStructs(model.Build(a), model.Build(b))
		if err == nil {
			return true, fmt.Sprintf("vtu: MergeStructs accepts ordered lists that partially overlap (a=[k0 k1], b=[k2 k0]); a:\n%sb:\n%sresult:\n%s", a.Dump(), b.Dump(), model.ObserveNorm(v, r).Dump())
		}
		return false, ""
	})
}

func c05Interesting(f *model.FieldInfo) bool {
	switch f.Kind {
	case model.FUList, model.FOrdList, model.FLeafList, model.FList:
		return true
	}
	return false
}

var c05Want = map[string]func(*model.FieldInfo) bool{}

var variantsWithMemo = map[model.FKind][]string{}

// variantsWith lists the variants whose schema has a field of kind k.
func variantsWith(k model.FKind) []string {
	if r, ok := variantsWithMemo[k]; ok {
		return r
	}
	var out []string
	for _, v := range variants.All {
		v.MustInit()
		for _, si := range v.Structs {
			found := false
			for _, f := range si.Fields {
				if f.Kind == k {
					found = true
				}
			}
			if found {
				out = append(out, v.Name)
				break
			}
		}
	}
	sort.Strings(out)
	variantsWithMemo[k] = out
	return out
}

// mergeCase is one evaluated direction MergeStructs(x, y).
type mergeCase struct {
	ref *refResult
	res *model.Node // observed result, nil when the call failed
	err error
}

func TestC05(t *testing.T) {
	rec := ev.Start(t, "C05")
	rec.Rule(c05R)
	rec.Assume("list entries whose key is a wrapper union are never put on both sides: in Go such a key is a pointer to a wrapper struct, so two independently built trees cannot hold 'the same' entry")
	rec.Assume("leaf-lists / unkeyed lists that hold the same elements in a different order, and an ordered list of a whose keys are a strict same-order subset of b's: no verdict asserted (statement and doc comments leave them open); non-mutation is still asserted")
	c05Witnesses(rec)
	checkWitnesses(t)
	cnt := newCounter()
	rapid.Check(t, func(rt *rapid.T) {
		focus := rapid.SampledFrom([]string{"none", "none", "none", "none", "ordered", "ordered", "unkeyed", "unkeyed", "leaf-list"}).Draw(rt, "focus")
		fk := map[string]model.FKind{"ordered": model.FOrdList, "unkeyed": model.FUList, "leaf-list": model.FLeafList}[focus]
		names := th.AllVariants
		if focus != "none" {
			names = variantsWith(fk)
		}
		v := th.PickVariant(rt, names...)
		v.MustInit()
		o := model.GenOpts{MaxList: 4}
		switch shape := rapid.IntRange(0, 9).Draw(rt, "shape"); {
		case focus != "none":
			o.MaxList = 5
			key := v.Name + "/" + focus
			w, ok := c05Want[key]
			if !ok {
				w = wantBelow(func(f *model.FieldInfo) bool { return f.Kind == fk })
				c05Want[key] = w
			}
			o.Want = w
		case shape <= 5:
			w, ok := c05Want[v.Name]
			if !ok {
				w = wantBelow(c05Interesting)
				c05Want[v.Name] = w
			}
			o.Want = w
		case shape == 6:
			o.Sparse = true
		}
		m := model.GenTree(rt, v, o)
		mode := rapid.SampledFrom([]string{"disjoint", "compat", "compat", "rare", "rare", "rare", "mixed"}).Draw(rt, "split")
		sp := &splitter{rt: rt, v: v, compat: mode == "compat", disjoint: mode == "disjoint", rare: mode == "rare", focus: fk, hasFocus: focus != "none"}
		if focus != "none" {
			sp.keep = o.Want
		}
		a, b := sp.split(m)
		overwrite := rapid.IntRange(0, 2).Draw(rt, "overwrite") == 0
		var opts []ygot.MergeOpt
		if overwrite {
			opts = append(opts, &ygot.MergeOverwriteExistingFields{})
		}
		ref := refMerge(a, b, overwrite)
		classes := th.TreeClasses(v, m.Stat())
		for c := range ref.Classes {
			classes = append(classes, c)
		}
		classes = uniq(append(classes, "split:"+mode, "focus:"+focus, fmt.Sprintf("overwrite:%v", overwrite)))
		switch {
		case !ref.ok():
			classes = append(classes, "expect:fail")
			if len(ref.Fail) == 1 {
				classes = append(classes, "expect:fail-single-reason", "expect:fail-single:"+ref.Fail[0].Kind)
			}
		case !ref.specified():
			classes = append(classes, "expect:no-verdict")
		default:
			classes = append(classes, "expect:ok")
		}
		if ref.BothLeaves == 0 && ref.Overlap == 0 && !intersectsLists(ref) {
			classes = append(classes, "pair:disjoint")
		}
		nt := ref.Overlap >= 1
		rec.Case(fmt.Sprintf("%s|%v|%s|%s", v.Name, overwrite, a.Dump(), b.Dump()), nt, classes...)
		cnt.add(classes)
		if rec.WantSample() {
			rec.Sample(map[string]string{"variant": v.Name, "a": th.Trunc(a.Dump(), 700), "b": th.Trunc(b.Dump(), 700),
				"case": fmt.Sprintf("split=%s overwrite=%v expected-failure-reasons=%d no-verdict=%d", mode, overwrite, len(ref.Fail), len(ref.Unspecified))})
		}
		ctx := func() string {
			return fmt.Sprintf("variant %s overwrite=%v\ntree a:\n%s\ntree b:\n%s", v.Name, overwrite, a.Dump(), b.Dump())
		}
		ex := newExcuser(rec)
		ab := runMerge(rt, ex, v, "a", "b", a, b, ref, overwrite, opts, ctx)
		if overwrite {
			return
		}
		// swapped inputs: the same judgement, then commutativity
		refBA := refMerge(b, a, false)
		ba := runMerge(rt, ex, v, "b", "a", b, a, refBA, false, opts, ctx)
		if ab.err == nil && ba.err == nil {
			conf := map[string]bool{}
			for _, lc := range ref.LeafFail {
				conf[lc.Path] = true
			}
			var bad []dItem
			for _, it := range treeDiff(ab.res, ba.res, dOpts{OrdAsSet: true, LLSet: map[string]bool{"*": true}, ULSet: map[string]bool{"*": true}}) {
				if it.F != nil && conf[it.Path] && isBinLeaf(it.F) && ex.excuse(F8, true) {
					continue // both orders wrongly succeeded on a binary leaf conflict: a+b vs b+a
				}
				if isEmptyLeaf(it.F) && (ref.LeafOnlyA[it.Path] || refBA.LeafOnlyA[it.Path]) && ex.excuse(F51, true) {
					continue // the first input's leaf of type empty is lost in one of the two orders
				}
				bad = append(bad, it)
			}
			if len(bad) > 0 {
				rt.Fatalf("MergeStructs(a,b) and MergeStructs(b,a) both succeed but give different leaf sets (a = result of (a,b), b = result of (b,a)):%s\n%s", joinItems(bad), ctx())
			}
		}
	})
	cnt.require(t, "C05", 3, "pair:disjoint", "pair:leaf-equal-overlap", "pair:leaf-conflict", "pair:keyed-entry-overlap",
		"pair:ll-equal", "pair:ll-disjoint", "pair:ll-partial", "expect:ok", "expect:fail", "overwrite:true", "overwrite:false",
		"pair:ord-disjoint", "pair:ord-equal", "pair:ord-b-subset-of-a")
	cnt.require(t, "C05", 1, "pair:ord-permutation", "pair:ord-partial-overlap", "pair:ord-overlap-b-first-key-new", "expect:fail-single-reason", "pair:ll-permuted", "pair:binary-leaf-conflict",
		"pair:ul-equal", "pair:ul-disjoint", "expect:no-verdict")
	cnt.require(t, "C05", 0.3, "pair:ul-partial")
}

func intersectsLists(r *refResult) bool {
	for c := range r.Classes {
		if c != "pair:ord-disjoint" && c != "pair:ll-disjoint" && c != "pair:ul-disjoint" {
			return true
		}
	}
	return false
}

func isBinLeaf(f *model.FieldInfo) bool {
	return f != nil && f.Kind == model.FLeaf && !f.ElemUnion && f.Type.VKind() == model.KBin
}

// f8ErrorOnly reports whether every line of a MergeStructs error is the "lists must be unique" complaint
// of copySliceField about one of the conflicting binary leaves.
func f8ErrorOnly(err error, ref *refResult) bool {
	names := map[string]bool{}
	for _, lc := range ref.LeafFail {
		if isBinLeaf(lc.F) {
			names[lc.F.Name] = true
		}
	}
	if len(names) == 0 {
		return false
	}
	msg := strings.TrimPrefix(err.Error(), "error merging b to new struct: ")
	for _, line := range strings.Split(msg, "\n") {
		line = strings.TrimSpace(line)
		if line == "" {
			continue
		}
		i := strings.Index(line, ": source and destination lists must be unique")
		if i < 0 {
			return false
		}
		ap := line[:i]
		if j := strings.LastIndex(ap, "."); j < 0 || !names[ap[j+1:]] {
			return false
		}
	}
	return true
}

// f50UListErrorOnly: MergeStructs first deep-copies its first input; when that copy drops a zero-length
// binary leaf inside an unkeyed-list element (F50), the element no longer equals its twin in the second
// input and the equal lists are rejected as "overlapping". Signature: every error line is the uniqueness
// complaint about an unkeyed list, and the first input holds such a leaf inside an unkeyed-list element.
func f50UListErrorOnly(err error, x *model.Node) bool {
	msg := strings.TrimPrefix(err.Error(), "error merging b to new struct: ")
	for _, line := range strings.Split(msg, "\n") {
		line = strings.TrimSpace(line)
		if line == "" {
			continue
		}
		i := strings.Index(line, ": source and destination lists must be unique")
		if i < 0 {
			return false
		}
		ap := line[:i]
		j := strings.LastIndex(ap, ".")
		if j < 0 || !isUListName(x, ap[j+1:]) {
			return false
		}
	}
	return emptyBinaryInUList(x, false)
}

// isUListName reports whether some populated unkeyed list of the tree has this Go field name.
func isUListName(n *model.Node, name string) bool {
	return n.AnyField(func(o *model.Node, f *model.FieldInfo) bool { return f.Kind == model.FUList && f.Name == name })
}

func emptyBinaryInUList(n *model.Node, inUL bool) bool {
	if n == nil {
		return false
	}
	for _, f := range n.SI.Fields {
		switch f.Kind {
		case model.FLeaf:
			if v, ok := n.Leaf[f.Name]; ok && inUL && isBinLeaf(f) && len(v.B) == 0 {
				return true
			}
		case model.FCont:
			if emptyBinaryInUList(n.Cont[f.Name], inUL) {
				return true
			}
		case model.FList, model.FOrdList:
			for _, e := range n.List[f.Name] {
				if emptyBinaryInUList(e.N, inUL) {
					return true
				}
			}
		case model.FUList:
			for _, e := range n.UList[f.Name] {
				if emptyBinaryInUList(e, true) {
					return true
				}
			}
		}
	}
	return false
}

// runMerge calls MergeStructs(x, y) on fresh builds and judges verdict, result and non-mutation.
func runMerge(rt *rapid.T, ex *excuser, v *model.Variant, nx, ny string, x, y *model.Node, ref *refResult, overwrite bool, opts []ygot.MergeOpt, ctx func() string) mergeCase {
	gx, gy := model.Build(x), model.Build(y)
	r, err := ygot.MergeStructs(gx, gy, opts...)
	call := fmt.Sprintf("MergeStructs(%s, %s)", nx, ny)
	// inputs unchanged, also on failure
	for _, in := range []struct {
		n  string
		m  *model.Node
		gs ygot.GoStruct
	}{{nx, x, gx}, {ny, y, gy}} {
		if d := treeDiff(in.m, model.ObserveNorm(v, in.gs), dOpts{}); len(d) > 0 {
			rt.Fatalf("%s (error: %v) changed its input %s (a = before, b = after):%s\n%s", call, err, in.n, joinItems(d), ctx())
		}
	}
	mc := mergeCase{ref: ref, err: err}
	if err == nil {
		if r == nil {
			rt.Fatalf("%s returned (nil, nil)\n%s", call, ctx())
		}
		mc.res = model.ObserveNorm(v, r)
	}
	// verdict
	switch {
	case !ref.ok() && err == nil:
		var bad []string
		for _, fr := range ref.Fail {
			switch {
			case fr.Kind == "binleaf" && ex.excuse(F8, true):
			case fr.Kind == "ord-bfirstnew" && ex.excuse(F52, true):
			default:
				bad = append(bad, fr.String())
			}
		}
		if len(bad) > 0 {
			rt.Fatalf("%s succeeded but must fail:\n  %s\nresult:\n%s\n%s", call, strings.Join(bad, "\n  "), mc.res.Dump(), ctx())
		}
	case ref.ok() && ref.specified() && err != nil:
		if !(overwrite && ex.excuse(F8, f8ErrorOnly(err, ref))) && !ex.excuse(F50, f50UListErrorOnly(err, x)) {
			rt.Fatalf("%s failed but the pair is mergeable (no leaf conflict%s, lists equal or disjoint, ordered lists disjoint or subset): %v\n%s",
				call, map[bool]string{true: " that matters with overwrite", false: ""}[overwrite], err, ctx())
		}
	}
	// result = union
	if err == nil && ref.ok() && ref.specified() {
		conf := map[string]bool{}
		for _, lc := range ref.LeafFail {
			conf[lc.Path] = true
		}
		var bad []dItem
		for _, it := range treeDiff(ref.Tree, mc.res, dOpts{LLSet: ref.LLBoth, ULSet: ref.ULBoth}) {
			switch {
			case ex.excuse(F50, isF50(it)):
			case overwrite && isBinLeaf(it.F) && conf[it.Path] && ex.excuse(F8, true):
			case ex.excuse(F51, isF51(it, ref)):
			default:
				bad = append(bad, it)
			}
		}
		if len(bad) > 0 {
			rt.Fatalf("result of %s is not the union of its inputs (a = expected, b = observed result):%s\n%s", call, joinItems(bad), ctx())
		}
	}
	return mc
}

func isEmptyLeaf(f *model.FieldInfo) bool {
	return f != nil && f.Kind == model.FLeaf && !f.ElemUnion && f.Type.VKind() == model.KEmpty
}

// isF51: a leaf of type empty that only the first input has is unset in the result.
func isF51(it dItem, ref *refResult) bool {
	if it.F == nil || it.F.Kind != model.FLeaf || it.F.ElemUnion || it.F.Type.VKind() != model.KEmpty || it.A == nil || it.B == nil {
		return false
	}
	_, oka := it.A.Leaf[it.F.Name]
	_, okb := it.B.Leaf[it.F.Name]
	return oka && !okb && ref.LeafOnlyA[it.Path]
}
