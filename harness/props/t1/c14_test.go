package t1

import (
	"fmt"
	"reflect"
	"sort"
	"strings"
	"testing"

	"github.com/openconfig/ygot/ygot"
	"pgregory.net/rapid"
	"verifharness/ev"
	"verifharness/model"
	"verifharness/th"
	"verifharness/variants"
)

// C14: PruneEmptyBranches removes only empty branches and never fails (DESIGN.md 5/C14).

const (
	F9   = "F9-prune-ordered-panic"
	F53  = "F53-prune-skips-unkeyed-entries"
	c14R = "variant x schema-conforming tree -> Build -> {BuildEmptyTree(root) | BuildEmptyTree on 1-3 random subtrees (containers, list / ordered-list / unkeyed-list entries) | " +
		"1-4 empty containers inserted by reflection into nil container fields of list, ordered-list (and, rarely, unkeyed-list) entries, optionally expanded with BuildEmptyTree | nothing}; " +
		"oracle: PruneEmptyBranches returns normally (panics recovered and reported); leaves, leaf-lists and list entries unchanged (observe == model with empty containers, presence or not, removed); " +
		"no container without set descendants remains anywhere (list entries count as set descendants; presence containers count as containers, as documented); a second call changes nothing; " +
		"Prune(BuildEmptyTree(Build(m))) has the leaf set of m; non-trivial = before pruning the tree holds an empty container below a keyed-list or ordered-list entry; distinct by variant+tree+operations"
)

// goNode is one struct instance of a Go tree.
type goNode struct {
	ptr     reflect.Value // pointer to the struct
	path    string
	inEntry bool // at or below a keyed / ordered list entry
	inOrd   bool // at or below an ordered-list entry
	inUL    bool // at or below an unkeyed-list entry
	isEntry bool
}

// goNodes lists every struct of the tree in a deterministic order.
func goNodes(gs ygot.GoStruct) []goNode {
	var out []goNode
	var walk func(pv reflect.Value, n goNode)
	walk = func(pv reflect.Value, n goNode) {
		n.ptr = pv
		out = append(out, n)
		sv := pv.Elem()
		t := sv.Type()
		for i := 0; i < t.NumField(); i++ {
			sf := t.Field(i)
			if sf.Tag.Get("path") == "" {
				continue
			}
			fv := sv.Field(i)
			p := n.path + "." + sf.Name
			child := goNode{inEntry: n.inEntry, inOrd: n.inOrd, inUL: n.inUL}
			switch {
			case fv.Kind() == reflect.Ptr && !fv.IsNil() && model.IsOrderedMapType(fv.Type()):
				om := fv.Elem()
				keys, vm := unexp(om.FieldByName("keys")), unexp(om.FieldByName("valueMap"))
				for j := 0; j < keys.Len(); j++ {
					if vm.IsNil() {
						break
					}
					ev := vm.MapIndex(keys.Index(j))
					if ev.IsValid() && !ev.IsNil() {
						c := child
						c.path, c.inEntry, c.inOrd, c.isEntry = fmt.Sprintf("%s[%s]", p, keyStr(keys.Index(j))), true, true, true
						walk(ev, c)
					}
				}
			case fv.Kind() == reflect.Ptr && !fv.IsNil() && isStructPtrType(fv.Type()):
				c := child
				c.path = p
				walk(fv, c)
			case fv.Kind() == reflect.Map && !fv.IsNil():
				for _, k := range sortedMapKeys(fv) {
					ev := fv.MapIndex(k)
					if ev.Kind() == reflect.Ptr && !ev.IsNil() {
						c := child
						c.path, c.inEntry, c.isEntry = fmt.Sprintf("%s[%s]", p, keyStr(k)), true, true
						walk(ev, c)
					}
				}
			case fv.Kind() == reflect.Slice && isStructPtrType(fv.Type().Elem()):
				for j := 0; j < fv.Len(); j++ {
					if ev := fv.Index(j); !ev.IsNil() {
						c := child
						c.path, c.inUL, c.isEntry = fmt.Sprintf("%s[%d]", p, j), true, true
						walk(ev, c)
					}
				}
			}
		}
	}
	walk(reflect.ValueOf(gs), goNode{})
	return out
}

// nilContainerFields lists the indices of nil container fields of the struct.
func nilContainerFields(pv reflect.Value) []int {
	var out []int
	sv := pv.Elem()
	for i := 0; i < sv.NumField(); i++ {
		sf := sv.Type().Field(i)
		if sf.Tag.Get("path") == "" {
			continue
		}
		if fv := sv.Field(i); isStructPtrType(fv.Type()) && !model.IsOrderedMapType(fv.Type()) && fv.IsNil() {
			out = append(out, i)
		}
	}
	return out
}

// f9Trigger: the tree holds an ordered-list entry on which pruneBranchesInternal calls Interface() on a
// value reached through the unexported valueMap: a non-nil container field, or any field that is not a
// pointer, slice or map (enumeration, union, empty).
func f9Trigger(gs ygot.GoStruct) bool {
	for _, n := range goNodes(gs) {
		if !n.inOrd || !n.isEntry {
			continue
		}
		sv := n.ptr.Elem()
		for i := 0; i < sv.NumField(); i++ {
			fv := sv.Field(i)
			switch fv.Kind() {
			case reflect.Ptr:
				if isStructPtrType(fv.Type()) && !fv.IsNil() {
					return true
				}
			case reflect.Slice, reflect.Map:
			default:
				return true
			}
		}
	}
	return false
}

func safePrune(gs ygot.GoStruct) (panicked string) {
	defer func() {
		if p := recover(); p != nil {
			panicked = fmt.Sprint(p)
		}
	}()
	ygot.PruneEmptyBranches(gs)
	return ""
}

func safeBuildEmpty(gs ygot.GoStruct) (panicked string) {
	defer func() {
		if p := recover(); p != nil {
			panicked = fmt.Sprint(p)
		}
	}()
	ygot.BuildEmptyTree(gs)
	return ""
}

// pruneModel is the expected effect on the model: every container without set descendants is removed,
// presence containers included (PruneEmptyBranches documents that it removes struct pointers whose
// struct is unpopulated); list entries and unkeyed-list entries stay.
func pruneModel(n *model.Node) *model.Node {
	c := n.Clone()
	var prune func(n *model.Node)
	prune = func(n *model.Node) {
		for name, ch := range n.Cont {
			prune(ch)
			if ch.IsEmpty(false) {
				delete(n.Cont, name)
			}
		}
		for _, l := range n.List {
			for _, e := range l {
				prune(e.N)
			}
		}
		for _, l := range n.UList {
			for _, e := range l {
				prune(e)
			}
		}
	}
	prune(c)
	return c
}

type leftover struct {
	path                 string
	inEntry, inOrd, inUL bool
}

// emptyContainers lists the containers of a (non-normalised) observation that have no set descendants.
func emptyContainers(n *model.Node) []leftover {
	var out []leftover
	var walk func(n *model.Node, p string, cur leftover)
	walk = func(n *model.Node, p string, cur leftover) {
		for _, f := range n.SI.Fields {
			fp := fieldPath(p, f)
			switch f.Kind {
			case model.FCont:
				if c, ok := n.Cont[f.Name]; ok {
					if c.IsEmpty(false) {
						l := cur
						l.path = fp
						out = append(out, l)
					}
					walk(c, fp, cur)
				}
			case model.FList, model.FOrdList:
				for _, e := range n.List[f.Name] {
					c := cur
					c.inEntry = true
					c.inOrd = c.inOrd || f.Kind == model.FOrdList
					walk(e.N, entryPath(fp, e.Key), c)
				}
			case model.FUList:
				for i, e := range n.UList[f.Name] {
					c := cur
					c.inUL = true
					walk(e, fmt.Sprintf("%s[#%d]", fp, i), c)
				}
			}
		}
	}
	walk(n, "", leftover{})
	return out
}

func c14Witnesses(rec *ev.Rec) {
	rec.Witness(F9, func() (bool, string) {
		v := variants.Get("vtu")
		m := witnessTree(v, func(f *model.FieldInfo) bool {
			if f.Kind != model.FOrdList {
				return false
			}
			for _, cf := range f.Child.Fields {
				if cf.Kind == model.FCont {
					return true
				}
			}
			return false
		})
		if m == nil {
			return noWitnessTree()
		}
		gs := model.Build(m)
		for _, n := range goNodes(gs) {
			if n.inOrd && n.isEntry {
				if idx := nilContainerFields(n.ptr); len(idx) > 0 {
					f := n.ptr.Elem().Field(idx[0])
					f.Set(reflect.New(f.Type().Elem()))
				}
			}
		}
		if p := safePrune(gs); p != "" {
			return true, fmt.Sprintf("vtu: PruneEmptyBranches panics on a tree whose ordered-list entries hold an empty container: %s\ntree:\n%s", p, m.Dump())
		}
		return false, ""
	})
	rec.Witness(F53, func() (bool, string) {
		v := variants.Get("vtu")
		m := witnessTree(v, func(f *model.FieldInfo) bool {
			if f.Kind != model.FUList {
				return false
			}
			for _, cf := range f.Child.Fields {
				if cf.Kind == model.FCont {
					return true
				}
			}
			return false
		})
		if m == nil {
			return noWitnessTree()
		}
		gs := model.Build(m)
		for _, n := range goNodes(gs) {
			if n.inUL && n.isEntry {
				if idx := nilContainerFields(n.ptr); len(idx) > 0 {
					f := n.ptr.Elem().Field(idx[0])
					f.Set(reflect.New(f.Type().Elem()))
				}
			}
		}
		if p := safePrune(gs); p != "" {
			return true, "panic: " + p
		}
		if l := emptyContainers(model.Observe(v, gs)); len(l) > 0 {
			return true, fmt.Sprintf("vtu: after PruneEmptyBranches an empty container remains inside an unkeyed-list entry: %s\ntree:\n%s", l[0].path, m.Dump())
		}
		return false, ""
	})
}

func TestC14(t *testing.T) {
	rec := ev.Start(t, "C14")
	rec.Rule(c14R)
	c14Witnesses(rec)
	checkWitnesses(t)
	cnt := newCounter()
	rapid.Check(t, func(rt *rapid.T) {
		v := th.PickVariant(rt, th.AllVariants...)
		v.MustInit()
		o := model.GenOpts{}
		switch rapid.IntRange(0, 9).Draw(rt, "shape") {
		case 0, 1, 2, 3:
			w, ok := c05Want[v.Name]
			if !ok {
				w = wantBelow(c05Interesting)
				c05Want[v.Name] = w
			}
			o.Want = w
		case 4:
			o.Sparse = true
		}
		// an open F9 makes every prune of most ordered-list entries panic: lower their weight (never to zero)
		if rec.Active(F9) && rapid.IntRange(0, 9).Draw(rt, "avoidF9") < 6 {
			o.NoOrdered = true
		}
		m := model.GenTree(rt, v, o)
		// one tree in three is thinned out at one node: a container or list entry keeps a single leaf (plus its
		// key leaves), so that whether the node counts as populated hangs on that one leaf, whatever its kind
		thinned := ""
		if rapid.IntRange(0, 2).Draw(rt, "thin") == 0 {
			sites := model.Sites(m)
			if len(sites) > 1 {
				sn := sites[rapid.IntRange(1, len(sites)-1).Draw(rt, "thinsite")].N
				var leaves []string
				for _, f := range sn.SI.Fields {
					if _, ok := sn.Leaf[f.Name]; ok && f.Kind == model.FLeaf && !f.IsKey && f.Type != nil && f.Type.Leafref == "" {
						leaves = append(leaves, f.Name)
					}
				}
				if len(leaves) > 0 {
					// first a value kind (so that rare kinds such as empty or binary get their share), then a leaf of it
					byKind := map[string][]string{}
					var kinds []string
					for _, l := range leaves {
						k := sn.Leaf[l].K.String()
						if len(byKind[k]) == 0 {
							kinds = append(kinds, k)
						}
						byKind[k] = append(byKind[k], l)
					}
					sort.Strings(kinds)
					leaves = byKind[kinds[rapid.IntRange(0, len(kinds)-1).Draw(rt, "thinkind")]]
					keep := leaves[rapid.IntRange(0, len(leaves)-1).Draw(rt, "thinkeep")]
					for _, f := range sn.SI.Fields {
						if f.IsKey || f.Name == keep {
							continue
						}
						delete(sn.Leaf, f.Name)
						delete(sn.LL, f.Name)
						delete(sn.Cont, f.Name)
						delete(sn.List, f.Name)
						delete(sn.UList, f.Name)
					}
					thinned = "thinned:" + sn.Leaf[keep].K.String()
				}
			}
		}
		gs := model.Build(m)
		op := rapid.SampledFrom([]string{"bet-root", "bet-sub", "insert", "insert", "insert+bet-sub", "none"}).Draw(rt, "op")
		var desc []string
		if strings.Contains(op, "insert") {
			nodes := goNodes(gs)
			type slot struct {
				n   goNode
				idx int
			}
			var slots []slot
			for _, n := range nodes {
				if !n.inEntry && !n.inUL {
					continue
				}
				for _, i := range nilContainerFields(n.ptr) {
					slots = append(slots, slot{n, i})
				}
			}
			// unkeyed-list entries in half of the cases
			ulOK := rapid.IntRange(0, 1).Draw(rt, "ulistInsert") == 0
			k := rapid.IntRange(1, 4).Draw(rt, "inserts")
			for j := 0; j < k && len(slots) > 0; j++ {
				i := rapid.IntRange(0, len(slots)-1).Draw(rt, "slot")
				s := slots[i]
				slots = append(slots[:i], slots[i+1:]...)
				if s.n.inUL && !s.n.inEntry && !ulOK {
					continue
				}
				f := s.n.ptr.Elem().Field(s.idx)
				if !f.IsNil() {
					continue // filled by an earlier expansion
				}
				nv := reflect.New(f.Type().Elem())
				f.Set(nv)
				d := "insert " + s.n.path + "." + s.n.ptr.Elem().Type().Field(s.idx).Name
				if rapid.IntRange(0, 2).Draw(rt, "expand") == 0 {
					if p := safeBuildEmpty(nv.Interface().(ygot.GoStruct)); p != "" {
						rt.Fatalf("BuildEmptyTree panicked on an inserted empty container (%s): %s\ntree:\n%s", d, p, m.Dump())
					}
					d += " (expanded with BuildEmptyTree)"
				}
				desc = append(desc, d)
			}
		}
		if strings.Contains(op, "bet-sub") {
			nodes := goNodes(gs)
			k := rapid.IntRange(1, 3).Draw(rt, "subtrees")
			for j := 0; j < k; j++ {
				n := nodes[rapid.IntRange(0, len(nodes)-1).Draw(rt, "subtree")]
				if p := safeBuildEmpty(n.ptr.Interface().(ygot.GoStruct)); p != "" {
					rt.Fatalf("BuildEmptyTree panicked on subtree %q: %s\ntree:\n%s", n.path, p, m.Dump())
				}
				desc = append(desc, "BuildEmptyTree("+n.path+")")
			}
		}
		if op == "bet-root" {
			if p := safeBuildEmpty(gs); p != "" {
				rt.Fatalf("BuildEmptyTree panicked on the root: %s\ntree:\n%s", p, m.Dump())
			}
			desc = append(desc, "BuildEmptyTree(root)")
		}
		// one tree in three: an ordered-by-user list that was used and emptied again (AppendNew, then Delete
		// through the generated methods) instead of one that was never touched; it holds no data but is not
		// the zero value of its type
		emptied := 0
		if rapid.IntRange(0, 2).Draw(rt, "emptied-ordered") == 0 {
			type slot struct {
				n   goNode
				idx int
			}
			var slots []slot
			for _, n := range goNodes(gs) {
				sv := n.ptr.Elem()
				for i := 0; i < sv.NumField(); i++ {
					if fv := sv.Field(i); fv.Kind() == reflect.Ptr && fv.IsNil() && model.IsOrderedMapType(fv.Type()) {
						slots = append(slots, slot{n, i})
					}
				}
			}
			for k := rapid.IntRange(1, 2).Draw(rt, "emptied-n"); k > 0 && len(slots) > 0; k-- {
				j := rapid.IntRange(0, len(slots)-1).Draw(rt, "emptied-slot")
				sl := slots[j]
				slots = append(slots[:j], slots[j+1:]...)
				f := sl.n.ptr.Elem().Field(sl.idx)
				om := reflect.New(f.Type().Elem())
				app, del := om.MethodByName("AppendNew"), om.MethodByName("Delete")
				if !app.IsValid() || !del.IsValid() {
					rt.Fatalf("HARNESS-BUG: %v has no AppendNew/Delete", f.Type())
				}
				var args []reflect.Value
				for a := 0; a < app.Type().NumIn(); a++ {
					args = append(args, reflect.Zero(app.Type().In(a)))
				}
				if out := app.Call(args); !out[1].IsNil() {
					rt.Fatalf("HARNESS-BUG: AppendNew on a new %v: %v", f.Type(), out[1].Interface())
				}
				// Delete takes the key (a key struct for several keys); its zero value is the key just added
				var dargs []reflect.Value
				for a := 0; a < del.Type().NumIn(); a++ {
					dargs = append(dargs, reflect.Zero(del.Type().In(a)))
				}
				if out := del.Call(dargs); len(out) > 0 && out[0].Kind() == reflect.Bool && !out[0].Bool() {
					rt.Fatalf("HARNESS-BUG: Delete did not find the entry just appended to %v", f.Type())
				}
				f.Set(om)
				emptied++
				desc = append(desc, "emptied ordered list "+sl.n.path+"."+sl.n.ptr.Elem().Type().Field(sl.idx).Name)
			}
		}
		before := model.Observe(v, gs)
		emptiesBefore := emptyContainers(before)
		nt := false
		classes := append(th.TreeClasses(v, m.Stat()), "op:"+op)
		if emptied > 0 {
			classes = append(classes, "tree:emptied-ordered-list")
		}
		if thinned != "" {
			classes = append(classes, "thinned", thinned)
		}
		for _, l := range emptiesBefore {
			switch {
			case l.inOrd:
				classes = append(classes, "empty:in-ordered-entry")
				nt = true
			case l.inEntry:
				classes = append(classes, "empty:in-keyed-entry")
				nt = true
			case l.inUL:
				classes = append(classes, "empty:in-unkeyed-entry")
			default:
				classes = append(classes, "empty:outside-lists")
			}
		}
		if len(emptiesBefore) == 0 {
			classes = append(classes, "empty:none")
		}
		trig := f9Trigger(gs)
		if trig {
			classes = append(classes, "f9-trigger-region")
		}
		classes = uniq(classes)
		sort.Strings(desc)
		opDesc := strings.Join(desc, "; ")
		rec.Case(v.Name+"|"+opDesc+"|"+m.Dump(), nt, classes...)
		cnt.add(classes)
		th.SampleTree(rec, v, m, op+": "+th.Trunc(opDesc, 300))
		ctx := func() string {
			return fmt.Sprintf("variant %s, operations: %s\ntree before the operations:\n%s", v.Name, opDesc, m.Dump())
		}
		// the operations themselves must not change data
		if d := treeDiff(pruneModel(m), pruneModel(before.Clone().Normalize()), dOpts{}); len(d) > 0 {
			rt.Fatalf("BuildEmptyTree / inserting empty containers changed leaves or list entries:%s\n%s", joinItems(d), ctx())
		}

		// (1) returns normally
		if p := safePrune(gs); p != "" {
			if rec.Excuse(F9, trig && strings.Contains(p, "cannot return value obtained from unexported field")) {
				return
			}
			rt.Fatalf("PruneEmptyBranches panicked: %s\n%s", p, ctx())
		}
		got := model.Observe(v, gs)
		// (2) leaves, leaf-lists, list entries unchanged
		want := pruneModel(m)
		if d := treeDiff(want, pruneModel(got.Clone().Normalize()), dOpts{}); len(d) > 0 {
			rt.Fatalf("PruneEmptyBranches changed leaves, leaf-lists or list entries (a = expected, b = observed):%s\n%s", joinItems(d), ctx())
		}
		// (3) no container without set descendants remains
		var bad []string
		ex := newExcuser(rec)
		for _, l := range emptyContainers(got) {
			if ex.excuse(F53, l.inUL) {
				continue
			}
			bad = append(bad, l.path)
		}
		if len(bad) > 0 {
			rt.Fatalf("after PruneEmptyBranches containers without set descendants remain: %s\n%s", strings.Join(bad, ", "), ctx())
		}
		// (4) idempotent
		if p := safePrune(gs); p != "" {
			rt.Fatalf("second PruneEmptyBranches panicked: %s\n%s", p, ctx())
		}
		got2 := model.Observe(v, gs)
		if d := treeDiff(got, got2, dOpts{}); len(d) > 0 || got.Dump() != got2.Dump() {
			rt.Fatalf("a second PruneEmptyBranches changed the tree (a = after the first call, b = after the second):%s\nfirst:\n%s\nsecond:\n%s\n%s", joinItems(d), got.Dump(), got2.Dump(), ctx())
		}
		// (5) Prune(BuildEmptyTree(t)) has the original leaf set
		g2 := model.Build(m)
		if p := safeBuildEmpty(g2); p != "" {
			rt.Fatalf("BuildEmptyTree panicked on the root: %s\n%s", p, ctx())
		}
		if p := safePrune(g2); p != "" {
			if rec.Excuse(F9, f9Trigger(g2) && strings.Contains(p, "cannot return value obtained from unexported field")) {
				return
			}
			rt.Fatalf("PruneEmptyBranches(BuildEmptyTree(t)) panicked: %s\n%s", p, ctx())
		}
		lm, lg := model.LeafMap(m, model.InstOpts{}), model.LeafMap(model.ObserveNorm(v, g2), model.InstOpts{})
		if d := mapDiff(lm, lg); d != "" {
			rt.Fatalf("Prune(BuildEmptyTree(t)) does not have the leaf set of t: %s\n%s", d, ctx())
		}
	})
	cnt.require(t, "C14", 4, "op:bet-root", "op:bet-sub", "op:insert", "op:none", "empty:in-keyed-entry", "tree:ordered-entry", "tree:unkeyed-entry", "tree:presence")
	cnt.require(t, "C14", 1, "empty:in-ordered-entry", "empty:in-unkeyed-entry")
}

func mapDiff(a, b map[string]string) string {
	var d []string
	for k, va := range a {
		if vb, ok := b[k]; !ok {
			d = append(d, "missing "+k+" = "+va)
		} else if va != vb {
			d = append(d, k+": want "+va+" got "+vb)
		}
	}
	for k, vb := range b {
		if _, ok := a[k]; !ok {
			d = append(d, "extra "+k+" = "+vb)
		}
	}
	sort.Strings(d)
	if len(d) > 10 {
		d = append(d[:10], fmt.Sprintf("… %d more", len(d)-10))
	}
	return strings.Join(d, "; ")
}

var _ = ev.JSON
