package t1

import (
	"fmt"
	"reflect"
	"sort"
	"strings"
	"unsafe"

	"github.com/openconfig/ygot/ygot"
	"verifharness/model"
)

// The scribbler (DESIGN.md 3.3): enumerates every piece of mutable memory reachable from a GoStruct
// tree by plain reflection (no ygot walker) and can overwrite each of them in place. It is the
// aliasing detector of C04: if two trees share any of that memory, scribbling one changes what the
// observer reads from the other.
//
// memLoc.Kind:
//
//	leaf-ptr        target of a *scalar leaf pointer
//	bin-leaf        backing array of a Binary leaf
//	ll-backing      backing array of a leaf-list slice (its elements are overwritten)
//	ll-bin          backing array of one element of a []Binary leaf-list
//	ll-ubin         backing array of a Binary held in a union-typed leaf-list element (simple unions)
//	ll-wrapper      wrapper-union struct of a union-typed leaf-list element
//	ll-wrapper-bin  bytes of the Binary inside such a wrapper struct
//	union-ubin / union-wrapper / union-wrapper-bin   the same for a union-typed leaf
//	ulist-backing   backing array of an unkeyed-list slice (element pointers)
//	ulist-elem      element struct of an unkeyed list
//	map             contents of a keyed-list map (all entries deleted)
//	map-elem        list-entry struct held in a map
//	key-pointee     wrapper-union struct behind a map / ordered-map key
//	ordmap-struct   the generated ordered-map struct (unexported keys / valueMap set to nil)
//	ordmap-keys     backing array of the unexported keys slice
//	ordmap-valuemap contents of the unexported valueMap
//	ordmap-elem     list-entry struct held in an ordered map
//	struct / root   a container struct: every field overwritten
type memLoc struct {
	Kind string
	Path string
	Addr uintptr // base address of the allocation, 0 when it has no extent
	Mut  func()  // overwrite in place with observably different content
}

func collectMem(gs ygot.GoStruct) []memLoc {
	var out []memLoc
	rv := reflect.ValueOf(gs)
	if rv.Kind() != reflect.Ptr || rv.IsNil() {
		return nil
	}
	walkStruct(rv.Elem(), "root", "", &out)
	return out
}

// scribbleAll overwrites everything reachable from gs.
func scribbleAll(gs ygot.GoStruct) int {
	locs := collectMem(gs)
	for _, l := range locs {
		l.Mut()
	}
	return len(locs)
}

// sharedMem lists the memory kinds (with one example path each) of x whose allocation is also reachable
// from y.
func sharedMem(x, y ygot.GoStruct) map[string]string {
	ya := map[uintptr]bool{}
	for _, l := range collectMem(y) {
		if l.Addr != 0 {
			ya[l.Addr] = true
		}
	}
	out := map[string]string{}
	for _, l := range collectMem(x) {
		if l.Addr != 0 && ya[l.Addr] {
			if _, ok := out[l.Kind]; !ok {
				out[l.Kind] = l.Path
			}
		}
	}
	return out
}

func sharedString(m map[string]string) string {
	var ks []string
	for k, p := range m {
		ks = append(ks, k+"@"+p)
	}
	sort.Strings(ks)
	return strings.Join(ks, " ")
}

func unexp(f reflect.Value) reflect.Value {
	return reflect.NewAt(f.Type(), unsafe.Pointer(f.UnsafeAddr())).Elem()
}

// hdrCopy returns an independent copy of a slice / map header (same backing memory).
func hdrCopy(v reflect.Value) reflect.Value {
	c := reflect.New(v.Type()).Elem()
	c.Set(v)
	return c
}

func xorBytes(sl reflect.Value) func() {
	h := hdrCopy(sl)
	return func() {
		for i := 0; i < h.Len(); i++ {
			e := h.Index(i)
			e.SetUint(e.Uint() ^ 0xA5)
		}
	}
}

func isStructPtrType(t reflect.Type) bool {
	return t.Kind() == reflect.Ptr && t.Elem().Kind() == reflect.Struct
}

func walkStruct(sv reflect.Value, kind, path string, out *[]memLoc) {
	t := sv.Type()
	add := func(k, p string, addr uintptr, mut func()) {
		*out = append(*out, memLoc{Kind: k, Path: p, Addr: addr, Mut: mut})
	}
	for i := 0; i < t.NumField(); i++ {
		sf := t.Field(i)
		if sf.Tag.Get("path") == "" {
			continue
		}
		fv := sv.Field(i)
		p := path + "." + sf.Name
		switch fv.Kind() {
		case reflect.Ptr:
			if fv.IsNil() {
				continue
			}
			switch {
			case model.IsOrderedMapType(fv.Type()):
				walkOrdMap(fv, p, out)
			case isStructPtrType(fv.Type()):
				walkStruct(fv.Elem(), "struct", p, out)
			default:
				el := fv.Elem()
				add("leaf-ptr", p, fv.Pointer(), func() { garble(el) })
			}
		case reflect.Slice:
			if fv.IsNil() {
				continue
			}
			et := fv.Type().Elem()
			switch {
			case et.Kind() == reflect.Uint8:
				if fv.Len() > 0 {
					add("bin-leaf", p, fv.Pointer(), xorBytes(fv))
				} else if fv.Cap() > 0 {
					// zero-length value with spare capacity: nothing to scribble on, the address is the evidence
					add("bin-spare", p, fv.Pointer(), func() {})
				}
			case isStructPtrType(et):
				var els []reflect.Value
				for j := 0; j < fv.Len(); j++ {
					el := fv.Index(j)
					els = append(els, el)
					if !el.IsNil() {
						walkStruct(el.Elem(), "ulist-elem", fmt.Sprintf("%s[%d]", p, j), out)
					}
				}
				if fv.Len() > 0 {
					add("ulist-backing", p, fv.Pointer(), func() {
						for _, el := range els {
							el.Set(reflect.Zero(el.Type()))
						}
					})
				}
			default:
				var els []reflect.Value
				for j := 0; j < fv.Len(); j++ {
					el := fv.Index(j)
					els = append(els, el)
					walkValueMem(el, "ll", fmt.Sprintf("%s[%d]", p, j), out)
				}
				if fv.Len() > 0 {
					add("ll-backing", p, fv.Pointer(), func() {
						for _, el := range els {
							garble(el)
						}
					})
				}
			}
		case reflect.Interface:
			if !fv.IsNil() {
				walkValueMem(fv, "union", p, out)
			}
		case reflect.Map:
			if fv.IsNil() {
				continue
			}
			mv := hdrCopy(fv)
			keys := sortedMapKeys(mv)
			for _, k := range keys {
				ks := keyStr(k)
				walkKeyMem(k, p+"[key "+ks+"]", out)
				ev := mv.MapIndex(k)
				if ev.Kind() == reflect.Ptr && !ev.IsNil() {
					walkStruct(ev.Elem(), "map-elem", p+"["+ks+"]", out)
				}
			}
			add("map", p, mv.Pointer(), func() {
				for _, k := range keys {
					mv.SetMapIndex(k, reflect.Value{})
				}
			})
		}
	}
	var addr uintptr
	if t.Size() > 0 {
		addr = sv.UnsafeAddr()
	}
	add(kind, path, addr, func() { garbleStructFields(sv) })
}

func walkOrdMap(fv reflect.Value, p string, out *[]memLoc) {
	om := fv.Elem()
	keys := unexp(om.FieldByName("keys"))
	vm := unexp(om.FieldByName("valueMap"))
	var kels []reflect.Value
	for i := 0; i < keys.Len(); i++ {
		k := keys.Index(i)
		kels = append(kels, k)
		ks := keyStr(k)
		walkKeyMem(k, p+"[key "+ks+"]", out)
		if !vm.IsNil() {
			ev := vm.MapIndex(k)
			if ev.IsValid() && !ev.IsNil() {
				walkStruct(ev.Elem(), "ordmap-elem", p+"["+ks+"]", out)
			}
		}
	}
	if keys.Len() > 0 {
		*out = append(*out, memLoc{Kind: "ordmap-keys", Path: p, Addr: keys.Pointer(), Mut: func() {
			for _, k := range kels {
				garble(k)
			}
		}})
	}
	if !vm.IsNil() {
		mv := hdrCopy(vm)
		mkeys := sortedMapKeys(mv)
		*out = append(*out, memLoc{Kind: "ordmap-valuemap", Path: p, Addr: mv.Pointer(), Mut: func() {
			for _, k := range mkeys {
				mv.SetMapIndex(k, reflect.Value{})
			}
		}})
	}
	*out = append(*out, memLoc{Kind: "ordmap-struct", Path: p, Addr: fv.Pointer(), Mut: func() {
		keys.Set(reflect.Zero(keys.Type()))
		vm.Set(reflect.Zero(vm.Type()))
	}})
}

// walkValueMem records the mutable memory behind one leaf value that is not its own slot: the bytes of a
// Binary, a wrapper-union struct, a Binary held in a union interface.
func walkValueMem(el reflect.Value, prefix, p string, out *[]memLoc) {
	add := func(k string, addr uintptr, mut func()) {
		*out = append(*out, memLoc{Kind: prefix + "-" + k, Path: p, Addr: addr, Mut: mut})
	}
	switch el.Kind() {
	case reflect.Slice:
		if el.Len() > 0 {
			add("bin", el.Pointer(), xorBytes(el))
		} else if el.Cap() > 0 {
			add("bin-spare", el.Pointer(), func() {})
		}
	case reflect.Interface:
		if el.IsNil() {
			return
		}
		in := el.Elem()
		switch in.Kind() {
		case reflect.Ptr:
			if in.IsNil() || in.Elem().Kind() != reflect.Struct {
				return
			}
			st := in.Elem()
			for i := 0; i < st.NumField(); i++ {
				if f := st.Field(i); f.Kind() == reflect.Slice && f.Len() > 0 {
					add("wrapper-bin", f.Pointer(), xorBytes(f))
				}
			}
			var addr uintptr
			if st.Type().Size() > 0 {
				addr = in.Pointer()
			}
			add("wrapper", addr, func() { garble(st) })
		case reflect.Slice:
			if in.Len() > 0 {
				add("ubin", in.Pointer(), xorBytes(in))
			}
		}
	}
}

// walkKeyMem records wrapper-union structs reachable through a list key.
func walkKeyMem(k reflect.Value, p string, out *[]memLoc) {
	switch k.Kind() {
	case reflect.Interface:
		if k.IsNil() {
			return
		}
		in := k.Elem()
		if in.Kind() == reflect.Ptr && !in.IsNil() && in.Elem().Kind() == reflect.Struct {
			st := in.Elem()
			*out = append(*out, memLoc{Kind: "key-pointee", Path: p, Addr: in.Pointer(), Mut: func() { garble(st) }})
		}
	case reflect.Struct:
		for i := 0; i < k.NumField(); i++ {
			walkKeyMem(k.Field(i), p, out)
		}
	}
}

// keyStr renders a map key deterministically (pointers dereferenced, so no addresses).
func keyStr(k reflect.Value) string {
	switch k.Kind() {
	case reflect.Interface, reflect.Ptr:
		if k.IsNil() {
			return "nil"
		}
		return k.Elem().Type().Name() + ":" + keyStr(k.Elem())
	case reflect.Struct:
		var p []string
		for i := 0; i < k.NumField(); i++ {
			p = append(p, keyStr(k.Field(i)))
		}
		return "{" + strings.Join(p, ",") + "}"
	case reflect.Slice:
		return fmt.Sprintf("%x", k.Bytes())
	case reflect.String:
		return fmt.Sprintf("%q", k.String())
	case reflect.Int, reflect.Int8, reflect.Int16, reflect.Int32, reflect.Int64:
		return fmt.Sprint(k.Int())
	case reflect.Uint, reflect.Uint8, reflect.Uint16, reflect.Uint32, reflect.Uint64:
		return fmt.Sprint(k.Uint())
	case reflect.Float64:
		return fmt.Sprint(k.Float())
	case reflect.Bool:
		return fmt.Sprint(k.Bool())
	}
	return "?" + k.Kind().String()
}

func sortedMapKeys(m reflect.Value) []reflect.Value {
	ks := m.MapKeys()
	ss := make([]string, len(ks))
	idx := make([]int, len(ks))
	for i, k := range ks {
		ss[i] = keyStr(k)
		idx[i] = i
	}
	sort.SliceStable(idx, func(a, b int) bool { return ss[idx[a]] < ss[idx[b]] })
	out := make([]reflect.Value, len(ks))
	for i, j := range idx {
		out[i] = ks[j]
	}
	return out
}

// garble changes a settable value into an observably different one of the same type.
func garble(v reflect.Value) {
	switch v.Kind() {
	case reflect.Int, reflect.Int8, reflect.Int16, reflect.Int32, reflect.Int64:
		v.SetInt(v.Int() ^ 0x55)
	case reflect.Uint, reflect.Uint8, reflect.Uint16, reflect.Uint32, reflect.Uint64:
		v.SetUint(v.Uint() ^ 0x55)
	case reflect.Float64:
		f := v.Float()
		nf := f + 1
		if nf == f || nf != nf {
			nf = 0.5
		}
		v.SetFloat(nf)
	case reflect.String:
		v.SetString(v.String() + "~")
	case reflect.Bool:
		v.SetBool(!v.Bool())
	case reflect.Slice: // Binary: a new backing array with different content
		n := v.Len()
		nb := reflect.MakeSlice(v.Type(), n+1, n+1)
		for i := 0; i < n; i++ {
			nb.Index(i).SetUint(v.Index(i).Uint() ^ 0x5A)
		}
		nb.Index(n).SetUint(0x5A)
		v.Set(nb)
	case reflect.Struct: // key structs and wrapper-union structs
		for i := 0; i < v.NumField(); i++ {
			garble(v.Field(i))
		}
	case reflect.Interface:
		if v.IsNil() {
			return
		}
		in := v.Elem()
		if in.Kind() == reflect.Ptr {
			np := reflect.New(in.Type().Elem())
			if !in.IsNil() {
				np.Elem().Set(in.Elem())
			}
			garble(np.Elem())
			v.Set(np)
			return
		}
		c := reflect.New(in.Type()).Elem()
		c.Set(in)
		garble(c)
		v.Set(c)
	case reflect.Ptr:
		np := reflect.New(v.Type().Elem())
		if !v.IsNil() {
			np.Elem().Set(v.Elem())
		}
		if np.Elem().Kind() != reflect.Struct {
			garble(np.Elem())
		}
		v.Set(np)
	}
}

// garbleStructFields overwrites every data field of a GoStruct in place.
func garbleStructFields(sv reflect.Value) {
	t := sv.Type()
	for i := 0; i < t.NumField(); i++ {
		if t.Field(i).Tag.Get("path") == "" {
			continue
		}
		fv := sv.Field(i)
		switch fv.Kind() {
		case reflect.Ptr:
			if isStructPtrType(fv.Type()) {
				fv.Set(reflect.Zero(fv.Type()))
			} else {
				garble(fv)
			}
		case reflect.Slice, reflect.Map:
			fv.Set(reflect.Zero(fv.Type()))
		default:
			garble(fv)
		}
	}
}
