package t1

import (
	"fmt"
	"sort"
	"strings"

	"pgregory.net/rapid"
	"verifharness/model"
)

// ---- reference merge on model trees (DESIGN.md 3.5) -------------------------------------------------------
//
// A direct transcription of the statement of C05:
//
//	MergeStructs(a, b) succeeds exactly when
//	  every leaf set in both has the same value in both                      (ignored with overwrite)
//	  leaf-lists and unkeyed lists set in both are equal or disjoint
//	  ordered lists are disjoint or b's keys are a same-order subsequence of a's
//	on success the result is the union (b's leaf values win with overwrite).
//
// "equal" for leaf-lists / unkeyed lists is equality of the sequences (MergeStructs: "merge is skipped if
// their contents are equal"), "disjoint" means no element of one equals an element of the other
// (copySliceField / uniqueSlices: "YANG lists and leaf-lists must be unique"); disjoint lists are
// concatenated a ++ b. Two cases are left without a verdict because neither the statement nor the doc
// comments fix them: the same elements in a different order (is that "equal contents"?), and an ordered
// list of a whose keys are a strict same-order subsequence of b's (DESIGN.md C05 soundness guard).

type refResult struct {
	Tree        *model.Node
	Fail        []failReason    // reasons why the merge must fail
	LeafFail    []leafConflict  // leaves set in both with different values (reasons only without overwrite)
	LeafOnlyA   map[string]bool // paths of leaves set in a only
	Unspecified []string        // places where the statement gives no verdict
	Classes     map[string]bool // what kinds of overlap the pair has
	LLBoth      map[string]bool // paths of leaf-lists concatenated from both sides
	ULBoth      map[string]bool // paths of unkeyed lists concatenated from both sides
	Overlap     int             // list entries (keyed / ordered) present in both, + unkeyed lists populated in both
	BothLeaves  int
}

// failReason.Kind: leaf | binleaf (non-union binary leaf) | ll | ul | ord | ord-bfirstnew (ordered lists
// overlap, not mergeable, and b's first key is not in a)
type failReason struct {
	Kind, Path, Msg string
	F               *model.FieldInfo
}

func (f failReason) String() string { return f.Path + ": " + f.Msg }

func (r *refResult) fail(kind, path string, f *model.FieldInfo, format string, x ...interface{}) {
	r.Fail = append(r.Fail, failReason{Kind: kind, Path: path, F: f, Msg: fmt.Sprintf(format, x...)})
}

type leafConflict struct {
	Path string
	F    *model.FieldInfo
	A, B model.Val
}

func (r *refResult) ok() bool        { return len(r.Fail) == 0 }
func (r *refResult) specified() bool { return len(r.Unspecified) == 0 }

func refMerge(a, b *model.Node, overwrite bool) *refResult {
	r := &refResult{Classes: map[string]bool{}, LLBoth: map[string]bool{}, ULBoth: map[string]bool{}, LeafOnlyA: map[string]bool{}}
	r.Tree = r.node("", a, b, overwrite)
	r.Tree.Normalize()
	return r
}

func valsEqual(a, b []model.Val) bool {
	if len(a) != len(b) {
		return false
	}
	for i := range a {
		if a[i].Canon() != b[i].Canon() {
			return false
		}
	}
	return true
}

func sameMultiset(a, b []string) bool {
	if len(a) != len(b) {
		return false
	}
	x, y := append([]string(nil), a...), append([]string(nil), b...)
	sort.Strings(x)
	sort.Strings(y)
	return strings.Join(x, "\x00") == strings.Join(y, "\x00")
}

func intersects(a, b []string) bool {
	s := map[string]bool{}
	for _, x := range a {
		s[x] = true
	}
	for _, y := range b {
		if s[y] {
			return true
		}
	}
	return false
}

// isSubseq reports whether small is a (not necessarily contiguous) subsequence of big.
func isSubseq(small, big []string) bool {
	i := 0
	for _, x := range big {
		if i < len(small) && small[i] == x {
			i++
		}
	}
	return i == len(small)
}

// listRelation classifies two populated sequences of element identities.
func listRelation(a, b []string) string {
	switch {
	case strings.Join(a, "\x00") == strings.Join(b, "\x00") && len(a) == len(b):
		return "equal"
	case !intersects(a, b):
		return "disjoint"
	case sameMultiset(a, b):
		return "permuted"
	}
	return "partial"
}

func (r *refResult) node(p string, a, b *model.Node, ow bool) *model.Node {
	if a == nil {
		return b.Clone()
	}
	if b == nil {
		return a.Clone()
	}
	out := model.NewNode(a.SI)
	for _, f := range a.SI.Fields {
		name := f.Name
		fp := fieldPath(p, f)
		switch f.Kind {
		case model.FLeaf:
			va, oka := a.Leaf[name]
			vb, okb := b.Leaf[name]
			switch {
			case oka && okb:
				r.BothLeaves++
				if va.Canon() == vb.Canon() {
					if !f.IsKey {
						r.Classes["pair:leaf-equal-overlap"] = true
					}
					out.Leaf[name] = va
					continue
				}
				r.Classes["pair:leaf-conflict"] = true
				if va.K == model.KEnum && vb.K == model.KEnum && va.I == vb.I && va.ET != vb.ET {
					r.Classes["pair:union-enum-twin-conflict"] = true
				}
				kind := "leaf"
				if va.K == model.KBin && vb.K == model.KBin && !f.ElemUnion {
					r.Classes["pair:binary-leaf-conflict"] = true
					kind = "binleaf"
				}
				r.LeafFail = append(r.LeafFail, leafConflict{Path: fp, F: f, A: va, B: vb})
				if !ow {
					r.fail(kind, fp, f, "leaf set in both with different values a=%s b=%s", va, vb)
				}
				out.Leaf[name] = vb // b wins (only meaningful with overwrite)
			case oka:
				out.Leaf[name] = va
				r.LeafOnlyA[fp] = true
			case okb:
				out.Leaf[name] = vb
			}
		case model.FLeafList:
			la, lb := a.LL[name], b.LL[name]
			switch {
			case len(la) > 0 && len(lb) > 0:
				rel := listRelation(canonList(la), canonList(lb))
				r.Classes["pair:ll-"+rel] = true
				switch rel {
				case "equal":
					out.LL[name] = append([]model.Val(nil), la...)
				case "disjoint":
					out.LL[name] = append(append([]model.Val(nil), la...), lb...)
					r.LLBoth[fp] = true
				case "permuted":
					r.Unspecified = append(r.Unspecified, fp+": leaf-lists hold the same values in a different order")
					out.LL[name] = append([]model.Val(nil), la...)
				default:
					r.fail("ll", fp, f, "leaf-lists overlap but are not equal a=%v b=%v", la, lb)
				}
			case len(la) > 0:
				out.LL[name] = append([]model.Val(nil), la...)
			case len(lb) > 0:
				out.LL[name] = append([]model.Val(nil), lb...)
			}
		case model.FCont:
			ca, oka := a.Cont[name]
			cb, okb := b.Cont[name]
			switch {
			case oka && okb:
				out.Cont[name] = r.node(fp, ca, cb, ow)
			case oka:
				out.Cont[name] = ca.Clone()
			case okb:
				out.Cont[name] = cb.Clone()
			}
		case model.FList:
			la, lb := a.List[name], b.List[name]
			inB := map[string]*model.Entry{}
			for _, e := range lb {
				inB[model.KeyCanon(e.Key)] = e
			}
			seen := map[string]bool{}
			var res []*model.Entry
			for _, e := range la {
				k := model.KeyCanon(e.Key)
				seen[k] = true
				if eb, ok := inB[k]; ok {
					r.Overlap++
					r.Classes["pair:keyed-entry-overlap"] = true
					res = append(res, &model.Entry{Key: e.Key, N: r.node(entryPath(fp, e.Key), e.N, eb.N, ow)})
				} else {
					res = append(res, &model.Entry{Key: e.Key, N: e.N.Clone()})
				}
			}
			for _, e := range lb {
				if !seen[model.KeyCanon(e.Key)] {
					res = append(res, &model.Entry{Key: e.Key, N: e.N.Clone()})
				}
			}
			if len(res) > 0 {
				out.List[name] = res
			}
		case model.FOrdList:
			la, lb := a.List[name], b.List[name]
			if len(la) == 0 || len(lb) == 0 {
				var res []*model.Entry
				for _, e := range append(append([]*model.Entry(nil), la...), lb...) {
					res = append(res, &model.Entry{Key: e.Key, N: e.N.Clone()})
				}
				if len(res) > 0 {
					out.List[name] = res
				}
				continue
			}
			ka, kb := keysOf(la), keysOf(lb)
			inB := map[string]*model.Entry{}
			for _, e := range lb {
				inB[model.KeyCanon(e.Key)] = e
			}
			mergeShared := func() []*model.Entry {
				var res []*model.Entry
				seen := map[string]bool{}
				for _, e := range la {
					k := model.KeyCanon(e.Key)
					seen[k] = true
					if eb, ok := inB[k]; ok {
						r.Overlap++
						res = append(res, &model.Entry{Key: e.Key, N: r.node(entryPath(fp, e.Key), e.N, eb.N, ow)})
					} else {
						res = append(res, &model.Entry{Key: e.Key, N: e.N.Clone()})
					}
				}
				for _, e := range lb {
					if !seen[model.KeyCanon(e.Key)] {
						res = append(res, &model.Entry{Key: e.Key, N: e.N.Clone()})
					}
				}
				return res
			}
			switch {
			case !intersects(ka, kb):
				r.Classes["pair:ord-disjoint"] = true
				out.List[name] = mergeShared() // a ++ b
			case isSubseq(kb, ka):
				if len(ka) == len(kb) {
					r.Classes["pair:ord-equal"] = true
				} else {
					r.Classes["pair:ord-b-subset-of-a"] = true
				}
				out.List[name] = mergeShared() // a's order
			case isSubseq(ka, kb):
				r.Classes["pair:ord-a-strict-subset-of-b"] = true
				r.Overlap++
				r.Unspecified = append(r.Unspecified, fmt.Sprintf("%s: a's ordered keys %v are a strict same-order subset of b's %v", fp, ka, kb))
			default:
				r.Overlap++
				if sameMultiset(ka, kb) || subsetOf(kb, ka) || subsetOf(ka, kb) {
					r.Classes["pair:ord-permutation"] = true
				} else {
					r.Classes["pair:ord-partial-overlap"] = true
				}
				kind := "ord"
				if !hasStr(ka, kb[0]) {
					r.Classes["pair:ord-overlap-b-first-key-new"] = true
					kind = "ord-bfirstnew"
				}
				r.fail(kind, fp, f, "ordered lists overlap and b's keys %v are not a same-order subset of a's %v", kb, ka)
			}
		case model.FUList:
			la, lb := a.UList[name], b.UList[name]
			switch {
			case len(la) > 0 && len(lb) > 0:
				r.Overlap++
				rel := listRelation(dumps(la), dumps(lb))
				r.Classes["pair:ul-"+rel] = true
				switch rel {
				case "equal":
					out.UList[name] = cloneNodes(la)
				case "disjoint":
					out.UList[name] = append(cloneNodes(la), cloneNodes(lb)...)
					r.ULBoth[fp] = true
				case "permuted":
					r.Unspecified = append(r.Unspecified, fp+": unkeyed lists hold the same elements in a different order")
				default:
					r.fail("ul", fp, f, "unkeyed lists overlap but are not equal (%d and %d elements)", len(la), len(lb))
				}
			case len(la) > 0:
				out.UList[name] = cloneNodes(la)
			case len(lb) > 0:
				out.UList[name] = cloneNodes(lb)
			}
		}
	}
	return out
}

func subsetOf(small, big []string) bool {
	s := map[string]bool{}
	for _, x := range big {
		s[x] = true
	}
	for _, x := range small {
		if !s[x] {
			return false
		}
	}
	return true
}

func hasStr(l []string, s string) bool {
	for _, x := range l {
		if x == s {
			return true
		}
	}
	return false
}

func dumps(l []*model.Node) []string {
	out := make([]string, len(l))
	for i, n := range l {
		out[i] = n.Dump()
	}
	return out
}

func cloneNodes(l []*model.Node) []*model.Node {
	out := make([]*model.Node, len(l))
	for i, n := range l {
		out[i] = n.Clone()
	}
	return out
}

// ---- pair derivation -------------------------------------------------------------------------------------

// splitter derives a pair (a, b) from one base tree by random split / overlay. With compat set only
// roles that keep the pair mergeable are drawn (used by C04, which needs successful merges).
type splitter struct {
	rt                *rapid.T
	v                 *model.Variant
	compat            bool        // no conflicting roles
	disjoint          bool        // nothing goes to both sides
	rare              bool        // conflicting roles are rare (so that single reasons decide the verdict)
	leafConflictsOnly bool        // conflicting roles only for leaves (what MergeOverwriteExistingFields resolves)
	focus             model.FKind // list kind whose overlapping roles are preferred (when hasFocus)
	hasFocus          bool
	keep              func(*model.FieldInfo) bool // containers on the way to the focus kind always go to both sides
	o                 model.GenOpts
}

// enumTwin: for a union leaf holding a member of one enumeration, the member of another enumeration of
// the same union that has the same Go value (two values that differ in type only).
func enumTwin(f *model.FieldInfo, v model.Val) (model.Val, bool) {
	if f.Type == nil || len(f.Type.Members) < 2 || v.K != model.KEnum {
		return model.Val{}, false
	}
	for _, m := range f.Type.Members {
		if m.GoEnum == nil || m.GoEnum == v.ET {
			continue
		}
		for _, em := range m.Enum {
			if em.GoVal == v.I {
				return model.Val{K: model.KEnum, I: em.GoVal, S: em.Name, Mod: em.Mod, ET: m.GoEnum, Ident: m.Ident}, true
			}
		}
	}
	return model.Val{}, false
}

// anyEnumTwinPair returns some pair of members of two different enumerations of a union leaf that have the
// same Go value.
func anyEnumTwinPair(f *model.FieldInfo) (model.Val, model.Val, bool) {
	if f.Type == nil || len(f.Type.Members) < 2 {
		return model.Val{}, model.Val{}, false
	}
	for _, m := range f.Type.Members {
		if m.GoEnum == nil {
			continue
		}
		for _, em := range m.Enum {
			v := model.Val{K: model.KEnum, I: em.GoVal, S: em.Name, Mod: em.Mod, ET: m.GoEnum, Ident: m.Ident}
			if tw, ok := enumTwin(f, v); ok {
				return v, tw, true
			}
		}
	}
	return model.Val{}, model.Val{}, false
}

// fw scales the weight of an overlapping role of a list of kind k.
func (s *splitter) fw(k model.FKind, x int) int {
	if s.hasFocus && s.focus == k {
		return 3 * x
	}
	return x
}

func (s *splitter) pick(label string, weights ...int) int {
	tot := 0
	for _, w := range weights {
		tot += w
	}
	x := rapid.IntRange(0, tot-1).Draw(s.rt, label)
	for i, w := range weights {
		if x < w {
			return i
		}
		x -= w
	}
	return len(weights) - 1
}

// cw returns the weight of a conflicting role.
func (s *splitter) cw(x int) int {
	switch {
	case s.compat || s.disjoint:
		return 0
	case s.rare:
		return 1
	}
	return x
}

// lw returns the weight of a conflicting role of a whole list / leaf-list (few per tree, so not made rare).
func (s *splitter) lw(x int) int {
	if s.compat || s.disjoint || s.leafConflictsOnly {
		return 0
	}
	return x
}

// bw returns the weight of a role that puts the same data on both sides.
func (s *splitter) bw(x int) int {
	if s.disjoint {
		return 0
	}
	return x
}

func (s *splitter) split(m *model.Node) (a, b *model.Node) {
	a, b = s.node(m, nil, 0)
	return a.Normalize(), b.Normalize()
}

func cloneVal(v model.Val) model.Val {
	if v.B != nil {
		v.B = append([]byte{}, v.B...)
	}
	return v
}

func cloneValList(l []model.Val) []model.Val {
	out := make([]model.Val, len(l))
	for i, v := range l {
		out[i] = cloneVal(v)
	}
	return out
}

func reversedVals(l []model.Val) []model.Val {
	out := cloneValList(l)
	for i, j := 0, len(out)-1; i < j; i, j = i+1, j-1 {
		out[i], out[j] = out[j], out[i]
	}
	return out
}

func (s *splitter) node(m *model.Node, keyLeaves map[string]bool, depth int) (*model.Node, *model.Node) {
	a, b := model.NewNode(m.SI), model.NewNode(m.SI)
	for _, f := range m.SI.Fields {
		name := f.Name
		switch f.Kind {
		case model.FLeaf:
			v, ok := m.Leaf[name]
			if !ok {
				continue
			}
			if keyLeaves[name] {
				a.Leaf[name], b.Leaf[name] = cloneVal(v), cloneVal(v)
				continue
			}
			wConf := s.cw(15)
			if s.rare && (isBinLeaf(f) || f.Type.VKind() == model.KEmpty) {
				wConf = 15 // the conflict boundary of binary leaves is a class of its own
			}
			twin, hasTwin := enumTwin(f, v)
			if !hasTwin && wConf > 0 {
				// the union has such a pair at all: use it for both sides (the base value is replaced)
				if ta, tb, ok := anyEnumTwinPair(f); ok {
					v, twin, hasTwin = ta, tb, true
				}
			}
			if hasTwin && wConf > 0 {
				wConf = 40 // a member of ANOTHER enumeration of the union with the same Go value: a class of its own
			}
			switch s.pick("leaf", 30, 30, s.bw(25), wConf) {
			case 0:
				a.Leaf[name] = cloneVal(v)
			case 1:
				b.Leaf[name] = cloneVal(v)
			case 2:
				a.Leaf[name], b.Leaf[name] = cloneVal(v), cloneVal(v)
			case 3:
				a.Leaf[name] = cloneVal(v)
				nv := v
				if hasTwin {
					nv = twin
				}
				for tries := 0; tries < 6 && nv.Canon() == v.Canon(); tries++ {
					nv = model.GenVal(s.rt, s.v, f.Type, s.o, "conflict")
				}
				b.Leaf[name] = nv
			}
		case model.FLeafList:
			l := m.LL[name]
			n := len(l)
			if n == 0 {
				continue
			}
			wSplit, wPart, wPerm := 15, s.fw(model.FLeafList, s.lw(14)), s.fw(model.FLeafList, s.lw(5))
			if n < 2 {
				wSplit, wPart, wPerm = 0, 0, 0
			}
			switch s.pick("ll", 22, 22, s.bw(18), wSplit, wPart, wPerm) {
			case 0:
				a.LL[name] = cloneValList(l)
			case 1:
				b.LL[name] = cloneValList(l)
			case 2:
				a.LL[name], b.LL[name] = cloneValList(l), cloneValList(l)
			case 3:
				k := rapid.IntRange(1, n-1).Draw(s.rt, "cut")
				a.LL[name], b.LL[name] = cloneValList(l[:k]), cloneValList(l[k:])
			case 4:
				i := rapid.IntRange(0, n-2).Draw(s.rt, "from")
				j := rapid.IntRange(i+1, n-1).Draw(s.rt, "to")
				a.LL[name], b.LL[name] = cloneValList(l[:j]), cloneValList(l[i:])
			case 5:
				a.LL[name], b.LL[name] = cloneValList(l), reversedVals(l)
			}
		case model.FCont:
			c, ok := m.Cont[name]
			if !ok {
				continue
			}
			wOne := 12
			if depth == 0 || (s.keep != nil && !s.disjoint && s.keep(f)) {
				wOne = 0
			}
			switch s.pick("cont", 76, wOne, wOne) {
			case 0:
				a.Cont[name], b.Cont[name] = s.node(c, nil, depth+1)
			case 1:
				a.Cont[name] = c.Clone()
			case 2:
				b.Cont[name] = c.Clone()
			}
		case model.FList:
			for _, e := range m.List[name] {
				wBoth := s.bw(40)
				if wrapperUnionKey(f) {
					wBoth = 0 // the Go key is a pointer: two builds never hold "the same" entry
				}
				switch s.pick("entry", 30, 30, wBoth) {
				case 0:
					a.List[name] = append(a.List[name], cloneEntry(e))
				case 1:
					b.List[name] = append(b.List[name], cloneEntry(e))
				case 2:
					ea, eb := s.entry(f, e, depth)
					a.List[name] = append(a.List[name], ea)
					b.List[name] = append(b.List[name], eb)
				}
			}
		case model.FOrdList:
			l := m.List[name]
			n := len(l)
			if n == 0 {
				continue
			}
			both := func(es []*model.Entry) (ra, rb []*model.Entry) {
				for _, e := range es {
					ea, eb := s.entry(f, e, depth)
					ra, rb = append(ra, ea), append(rb, eb)
				}
				return
			}
			clones := func(es []*model.Entry) (r []*model.Entry) {
				for _, e := range es {
					r = append(r, cloneEntry(e))
				}
				return
			}
			wMulti := 1
			if n < 2 {
				wMulti = 0
			}
			wGuard := 14
			if s.compat {
				wGuard = 0
			}
			switch s.pick("ord", 10, 10, s.bw(14), 14, s.bw(16)*wMulti, s.bw(wGuard)*wMulti, s.fw(model.FOrdList, s.lw(12))*wMulti, s.fw(model.FOrdList, s.lw(16))*wMulti, s.fw(model.FOrdList, s.lw(14))*wMulti) {
			case 0: // a only
				a.List[name] = clones(l)
			case 1: // b only
				b.List[name] = clones(l)
			case 2: // equal key sequences
				a.List[name], b.List[name] = both(l)
			case 3: // disjoint: every entry to one side
				for _, e := range l {
					if rapid.Bool().Draw(s.rt, "toA") {
						a.List[name] = append(a.List[name], cloneEntry(e))
					} else {
						b.List[name] = append(b.List[name], cloneEntry(e))
					}
				}
			case 4: // b a strict same-order subset of a
				skip := rapid.IntRange(0, n-1).Draw(s.rt, "skip")
				for i, e := range l {
					if i == skip || rapid.IntRange(0, 3).Draw(s.rt, "drop") == 0 {
						a.List[name] = append(a.List[name], cloneEntry(e))
						continue
					}
					ea, eb := s.entry(f, e, depth)
					a.List[name], b.List[name] = append(a.List[name], ea), append(b.List[name], eb)
				}
			case 5: // a a strict same-order subset of b (no verdict)
				k := rapid.IntRange(0, n-1).Draw(s.rt, "skip")
				for i, e := range l {
					if i == k {
						b.List[name] = append(b.List[name], cloneEntry(e))
						continue
					}
					ea, eb := s.entry(f, e, depth)
					a.List[name], b.List[name] = append(a.List[name], ea), append(b.List[name], eb)
				}
			case 6: // permutation: same keys, b reversed; or (three keys and more) b = a strict subset of a's keys in reverse order
				ra, rb := both(l)
				if n >= 3 && rapid.Bool().Draw(s.rt, "subsetperm") {
					from := rapid.IntRange(1, n-2).Draw(s.rt, "subsetfrom")
					rb = rb[from:]
				}
				for i, j := 0, len(rb)-1; i < j; i, j = i+1, j-1 {
					rb[i], rb[j] = rb[j], rb[i]
				}
				a.List[name], b.List[name] = ra, rb
			case 7: // partial overlap (needs three keys): a = l[:j], b = l[i:], 0 < i < j < n
				if n < 3 {
					ra, rb := both(l)
					a.List[name], b.List[name] = ra, []*model.Entry{rb[1], rb[0]}
					break
				}
				i := rapid.IntRange(1, n-2).Draw(s.rt, "from")
				j := rapid.IntRange(i+1, n-1).Draw(s.rt, "to")
				a.List[name], b.List[name] = clones(l[:j]), clones(l[i:])
			case 8: // partial overlap, b starts with a key that a does not have: a = l[:j], b = l[j:] ++ l[:j-1]
				if n < 3 {
					ra, rb := both(l)
					a.List[name], b.List[name] = ra, []*model.Entry{rb[1], rb[0]}
					break
				}
				j := rapid.IntRange(2, n-1).Draw(s.rt, "to")
				a.List[name] = clones(l[:j])
				b.List[name] = append(clones(l[j:]), clones(l[:j-1])...)
			}
		case model.FUList:
			l := m.UList[name]
			n := len(l)
			if n == 0 {
				continue
			}
			wSplit, wPart, wPerm := s.fw(model.FUList, 15), s.fw(model.FUList, s.lw(24)), s.fw(model.FUList, s.lw(10))
			if n < 2 {
				wSplit, wPart, wPerm = 0, 0, 0
			}
			switch s.pick("ul", 20, 20, s.fw(model.FUList, s.bw(20)), wSplit, wPart, wPerm) {
			case 0:
				a.UList[name] = cloneNodes(l)
			case 1:
				b.UList[name] = cloneNodes(l)
			case 2:
				a.UList[name], b.UList[name] = cloneNodes(l), cloneNodes(l)
			case 3:
				k := rapid.IntRange(1, n-1).Draw(s.rt, "cut")
				a.UList[name], b.UList[name] = cloneNodes(l[:k]), cloneNodes(l[k:])
			case 4:
				i := rapid.IntRange(0, n-2).Draw(s.rt, "from")
				j := rapid.IntRange(i+1, n-1).Draw(s.rt, "to")
				a.UList[name], b.UList[name] = cloneNodes(l[:j]), cloneNodes(l[i:])
			case 5:
				rb := cloneNodes(l)
				for i, j := 0, len(rb)-1; i < j; i, j = i+1, j-1 {
					rb[i], rb[j] = rb[j], rb[i]
				}
				a.UList[name], b.UList[name] = cloneNodes(l), rb
			}
		}
	}
	return a, b
}

func cloneEntry(e *model.Entry) *model.Entry {
	return &model.Entry{Key: cloneValList(e.Key), N: e.N.Clone()}
}

// entry splits one list entry that goes to both sides: the key leaves stay on both sides.
func (s *splitter) entry(f *model.FieldInfo, e *model.Entry, depth int) (*model.Entry, *model.Entry) {
	kl := map[string]bool{}
	for _, kf := range f.KeyFields {
		kl[kf.Name] = true
	}
	na, nb := s.node(e.N, kl, depth+1)
	return &model.Entry{Key: cloneValList(e.Key), N: na}, &model.Entry{Key: cloneValList(e.Key), N: nb}
}
