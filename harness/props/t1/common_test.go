// Package t1 holds the checks C04 (DeepCopy/MergeStructs share no mutable memory), C05 (MergeStructs
// = set union with conflict detection) and C14 (PruneEmptyBranches) — DESIGN.md section 5.
package t1

import (
	"fmt"
	"sort"
	"strings"
	"testing"

	"verifharness/ev"
	"verifharness/model"
)

// ---- region-aware tree comparison ---------------------------------------------------------------------
//
// Same equality as model.Diff (leaves by canonical value, leaf-lists and ordered lists as sequences,
// keyed lists as sets of (key, entry), containers by presence), but every difference carries the
// field it sits at and whether it lies inside an unkeyed-list element, so that a difference can be
// attributed to the trigger region of a known finding and every OTHER difference is still reported.

type dItem struct {
	Path string           // model path of the field that differs
	Msg  string           // what differs
	F    *model.FieldInfo // the field
	InUL bool             // at or below an unkeyed list
	InWK bool             // at or below a keyed list whose key is a wrapper union (a pointer in Go)
	A, B *model.Node      // owning nodes on both sides (may be nil)
}

func (d dItem) String() string { return d.Path + ": " + d.Msg }

type dOpts struct {
	OrdAsSet bool            // ordered lists compared as sets of entries
	LLSet    map[string]bool // leaf-lists at these paths compared as multisets ("*" = all)
	ULSet    map[string]bool // unkeyed lists at these paths compared as multisets ("*" = all)
}

func (o dOpts) llSet(p string) bool { return o.LLSet != nil && (o.LLSet["*"] || o.LLSet[p]) }
func (o dOpts) ulSet(p string) bool { return o.ULSet != nil && (o.ULSet["*"] || o.ULSet[p]) }

func treeDiff(a, b *model.Node, o dOpts) []dItem {
	var out []dItem
	diffNode("", a, b, o, false, false, &out)
	return out
}

func fieldPath(p string, f *model.FieldInfo) string { return p + "/" + f.Name }
func entryPath(fp string, key []model.Val) string   { return fp + "[" + model.KeyCanon(key) + "]" }

func canonList(l []model.Val) []string {
	out := make([]string, len(l))
	for i, v := range l {
		out[i] = v.Canon()
	}
	return out
}

func sortedByKey(l []*model.Entry) []*model.Entry {
	out := append([]*model.Entry(nil), l...)
	sort.SliceStable(out, func(i, j int) bool { return model.KeyCanon(out[i].Key) < model.KeyCanon(out[j].Key) })
	return out
}

func keysOf(l []*model.Entry) []string {
	out := make([]string, len(l))
	for i, e := range l {
		out[i] = model.KeyCanon(e.Key)
	}
	return out
}

func wrapperUnionKey(f *model.FieldInfo) bool {
	if (f.Kind != model.FList && f.Kind != model.FOrdList) || !f.Owner.V.Wrapper {
		return false
	}
	for _, kf := range f.KeyFields {
		if kf.ElemUnion {
			return true
		}
	}
	return false
}

func diffNode(p string, a, b *model.Node, o dOpts, inUL, inWK bool, out *[]dItem) {
	if a == nil || b == nil {
		if a != b {
			*out = append(*out, dItem{Path: p, Msg: fmt.Sprintf("node present a=%v b=%v", a != nil, b != nil), InUL: inUL, InWK: inWK, A: a, B: b})
		}
		return
	}
	for _, f := range a.SI.Fields {
		name := f.Name
		fp := fieldPath(p, f)
		add := func(format string, x ...interface{}) {
			*out = append(*out, dItem{Path: fp, Msg: fmt.Sprintf(format, x...), F: f, InUL: inUL || f.Kind == model.FUList, InWK: inWK || wrapperUnionKey(f), A: a, B: b})
		}
		switch f.Kind {
		case model.FLeaf:
			va, oka := a.Leaf[name]
			vb, okb := b.Leaf[name]
			if oka != okb {
				add("leaf set a=%v(%s) b=%v(%s)", oka, va, okb, vb)
			} else if oka && va.Canon() != vb.Canon() {
				add("leaf a=%s b=%s", va, vb)
			}
		case model.FLeafList:
			la, lb := canonList(a.LL[name]), canonList(b.LL[name])
			if o.llSet(fp) {
				sort.Strings(la)
				sort.Strings(lb)
			}
			if strings.Join(la, "\x00") != strings.Join(lb, "\x00") || len(la) != len(lb) {
				add("leaf-list a=%v b=%v", a.LL[name], b.LL[name])
			}
		case model.FCont:
			ca, oka := a.Cont[name]
			cb, okb := b.Cont[name]
			if oka != okb {
				add("container present a=%v b=%v", oka, okb)
				continue
			}
			if oka {
				diffNode(fp, ca, cb, o, inUL, inWK, out)
			}
		case model.FList, model.FOrdList:
			la, lb := a.List[name], b.List[name]
			if f.Kind == model.FList || o.OrdAsSet {
				la, lb = sortedByKey(la), sortedByKey(lb)
			}
			ka, kb := keysOf(la), keysOf(lb)
			if strings.Join(ka, "\x00") != strings.Join(kb, "\x00") || len(ka) != len(kb) {
				add("list keys a=%v b=%v", ka, kb)
				continue
			}
			for i := range la {
				diffNode(entryPath(fp, la[i].Key), la[i].N, lb[i].N, o, inUL, inWK || wrapperUnionKey(f), out)
			}
		case model.FUList:
			la, lb := a.UList[name], b.UList[name]
			if o.ulSet(fp) {
				la, lb = sortedByDump(la), sortedByDump(lb)
			}
			if len(la) != len(lb) {
				add("unkeyed list len a=%d b=%d", len(la), len(lb))
				continue
			}
			for i := range la {
				diffNode(fmt.Sprintf("%s[#%d]", fp, i), la[i], lb[i], o, true, inWK, out)
			}
		}
	}
}

func sortedByDump(l []*model.Node) []*model.Node {
	out := append([]*model.Node(nil), l...)
	sort.SliceStable(out, func(i, j int) bool { return out[i].Dump() < out[j].Dump() })
	return out
}

func joinItems(items []dItem) string {
	var sb strings.Builder
	for i, it := range items {
		if i == 12 {
			fmt.Fprintf(&sb, "\n  … %d more", len(items)-i)
			break
		}
		sb.WriteString("\n  " + it.String())
	}
	return sb.String()
}

// nodeEqual is model equality of two (normalised) nodes.
func nodeEqual(a, b *model.Node) bool { return len(treeDiff(a, b, dOpts{})) == 0 }

// ---- generator bias -----------------------------------------------------------------------------------

// wantBelow returns a GenOpts.Want predicate that is true for fields satisfying pred and for every
// container / list on the way to such a field.
func wantBelow(pred func(*model.FieldInfo) bool) func(*model.FieldInfo) bool {
	memo := map[*model.StructInfo]bool{}
	var has func(si *model.StructInfo) bool
	has = func(si *model.StructInfo) bool {
		if si == nil {
			return false
		}
		if r, ok := memo[si]; ok {
			return r
		}
		memo[si] = false
		r := false
		for _, f := range si.Fields {
			if pred(f) || has(f.Child) {
				r = true
			}
		}
		memo[si] = r
		return r
	}
	return func(f *model.FieldInfo) bool { return pred(f) || has(f.Child) }
}

func hasBinaryMember(lt *model.LType) bool {
	if lt == nil {
		return false
	}
	if lt.VKind() == model.KBin {
		return true
	}
	for _, m := range lt.Members {
		if m.VKind() == model.KBin {
			return true
		}
	}
	return false
}

// ---- health -----------------------------------------------------------------------------------------

// counter counts classes locally for the generator-health assertion.
type counter struct {
	n int
	c map[string]int
}

func newCounter() *counter { return &counter{c: map[string]int{}} }

func (c *counter) add(classes []string) {
	c.n++
	seen := map[string]bool{}
	for _, k := range classes {
		if !seen[k] {
			seen[k] = true
			c.c[k]++
		}
	}
}

// require fails the test as INCONCLUSIVE when an essential class occurred in fewer than pct percent of
// the cases. Runs with fewer than 100 cases (replays) are not judged.
func (c *counter) require(t *testing.T, prop string, pct float64, classes ...string) {
	if c.n < 100 || t.Failed() {
		return
	}
	for _, k := range classes {
		if got := 100 * float64(c.c[k]) / float64(c.n); got < pct {
			t.Errorf("INCONCLUSIVE: %s generator health: class %q occurred in %.2f%% of %d cases (need >= %.1f%%)", prop, k, got, c.n, pct)
		}
	}
}

// uniq removes duplicate class labels (a class is counted once per case).
func uniq(l []string) []string {
	seen := map[string]bool{}
	var out []string
	for _, x := range l {
		if !seen[x] {
			seen[x] = true
			out = append(out, x)
		}
	}
	return out
}

// excuser calls rec.Excuse at most once per finding and case, so that excluded_known counts cases.
type excuser struct {
	rec  *ev.Rec
	done map[string]bool
}

func newExcuser(rec *ev.Rec) *excuser { return &excuser{rec: rec, done: map[string]bool{}} }

func (e *excuser) excuse(id string, trigger bool) bool {
	if !trigger {
		return false
	}
	if r, ok := e.done[id]; ok {
		return r
	}
	r := e.rec.Excuse(id, true)
	e.done[id] = r
	return r
}

// witnessProblems counts witnesses whose fixed input could not be built from the corpus (a harness
// problem: such a witness would silently disable its predicate).
var witnessProblems int

func noWitnessTree() (bool, string) {
	witnessProblems++
	return false, ""
}

func checkWitnesses(t *testing.T) {
	if witnessProblems > 0 {
		t.Errorf("HARNESS-BUG: %d finding witnesses could not build their fixed input from the corpus", witnessProblems)
	}
}

func has(l []string, s string) bool {
	for _, x := range l {
		if x == s {
			return true
		}
	}
	return false
}

var _ = ev.JSON
