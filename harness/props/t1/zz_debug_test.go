package t1

import (
	"fmt"
	"testing"

	"github.com/openconfig/ygot/ygot"
	"verifharness/model"
	"verifharness/variants"
)

func TestZZDebug(t *testing.T) {
	v := variants.Get("vtw")
	m := witnessTree(v, func(f *model.FieldInfo) bool { return f.Kind == model.FList && keyHasWrapperUnion(f) })
	fmt.Println(m.Dump())
	orig := model.Build(m)
	cp, _ := ygot.DeepCopy(orig)
	fmt.Println(sharedString(sharedMem(cp, orig)))
	for _, l := range collectMem(cp) {
		fmt.Println(l.Kind, l.Path)
		if l.Kind == "key-pointee" {
			l.Mut()
		}
	}
	fmt.Println(model.ObserveNorm(v, orig).Dump())
}
