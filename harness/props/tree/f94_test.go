package tree

import (
	"fmt"
	"reflect"

	"github.com/openconfig/goyang/pkg/yang"
	"github.com/openconfig/ygot/ygot"
	"github.com/openconfig/ygot/ytypes"
	"verifharness/ev"
)

// F94: a data node that has the name of the choice it lies in (legal YANG: choices and data nodes live in
// different namespaces; e.g. `choice session { container session {...} }`). The struct below is what the
// generator emits for
//
//	container box { choice probe { leaf probe { type string; } leaf probe-alt { type string; } } }
//
// (the `path` tag of a node inside a choice is the bare node name). ygot resolves the tag with
// schema.Dir["probe"], finds the CHOICE entry first and refuses it.
const F94 = "F94-choice-named-like-member"

type f94Box struct {
	Probe    *string `path:"probe" module:"m"`
	ProbeAlt *string `path:"probe-alt" module:"m"`
}

func (*f94Box) IsYANGGoStruct()                          {}
func (*f94Box) ΛValidate(...ygot.ValidationOption) error { return nil }
func (*f94Box) ΛEnumTypeMap() map[string][]reflect.Type  { return nil }
func (*f94Box) ΛBelongingModule() string                 { return "m" }

// f94Schema: container box { choice <choiceName> { leaf probe; leaf probe-alt } }.
func f94Schema(choiceName string) *yang.Entry {
	str := func(name string) *yang.Entry {
		return &yang.Entry{Name: name, Kind: yang.LeafEntry, Type: &yang.YangType{Kind: yang.Ystring}}
	}
	box := &yang.Entry{Name: "box", Kind: yang.DirectoryEntry, Dir: map[string]*yang.Entry{}}
	choice := &yang.Entry{Name: choiceName, Kind: yang.ChoiceEntry, Parent: box, Dir: map[string]*yang.Entry{}}
	box.Dir[choiceName] = choice
	for _, n := range []string{"probe", "probe-alt"} {
		cs := &yang.Entry{Name: n, Kind: yang.CaseEntry, Parent: choice, Dir: map[string]*yang.Entry{}}
		l := str(n)
		l.Parent = cs
		cs.Dir[n] = l
		choice.Dir[n] = cs
	}
	return box
}

// witnessF94 unmarshals {"probe":"x"} into the struct twice: with the choice called "pick" (control: must
// work) and with the choice called "probe" like its member (must work too).
func witnessF94(rec *ev.Rec) {
	rec.Witness(F94, func() (bool, string) {
		ctl := &f94Box{}
		if err := ytypes.Unmarshal(f94Schema("pick"), ctl, map[string]interface{}{"probe": "x"}); err != nil || ctl.Probe == nil {
			panic(fmt.Sprintf("HARNESS-BUG: F94 control (choice named differently from its members) does not unmarshal: %v", err))
		}
		b := &f94Box{}
		err := ytypes.Unmarshal(f94Schema("probe"), b, map[string]interface{}{"probe": "x"})
		if err != nil || b.Probe == nil || *b.Probe != "x" {
			return true, fmt.Sprintf(`container box { choice probe { leaf probe; leaf probe-alt } }: Unmarshal of {"probe":"x"} fails (%v); with the choice renamed it works`, err)
		}
		return false, ""
	})
}
