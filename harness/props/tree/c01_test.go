package tree

import (
	"bytes"
	"testing"

	"github.com/openconfig/ygot/ygot"
	"pgregory.net/rapid"
	"verifharness/ev"
	"verifharness/model"
	"verifharness/th"
)

// C01: RFC7951 JSON round-trip is lossless (DESIGN.md 5/C01).
func TestC01(t *testing.T) {
	rec := ev.Start(t, "C01")
	rec.Rule("variant x generated schema-conforming tree x RFC7951JSONConfig x entry point (Marshal7951 | EmitJSON) x indent; " +
		"oracle: Unmarshal into empty root observes equal to the model (leaves, leaf-list sequences, list keys and key leaves, ordered-list order, presence containers) and re-rendering is byte-identical; " +
		"non-trivial = tree has >=1 keyed-list entry and >=1 union/enum/identityref/decimal64/64-bit/binary leaf; distinct by variant+tree+config")
	rec.Assume("strings are valid UTF-8; union values are canonical (value of member i is not lexically accepted by an earlier member)")
	th.WitnessAll(rec)
	witnessF94(rec)
	witnessF99(rec)
	rapid.Check(t, func(rt *rapid.T) {
		v := th.PickVariant(rt, "vtu", "vtw", "vocc", "voco", "vocu", "voccw", "vtu2")
		o := model.GenOpts{}
		th.SteerAway(rec, &o)
		m := model.GenTree(rt, v, o)
		cfgI := rapid.IntRange(0, 3).Draw(rt, "cfg")
		var cfg *ygot.RFC7951JSONConfig
		switch cfgI {
		case 1:
			cfg = &ygot.RFC7951JSONConfig{AppendModuleName: true}
		case 2:
			cfg = &ygot.RFC7951JSONConfig{PrependModuleNameIdentityref: true}
		case 3:
			cfg = &ygot.RFC7951JSONConfig{}
		}
		entry := rapid.SampledFrom([]string{"Marshal7951", "EmitJSON"}).Draw(rt, "entry")
		indent := rapid.SampledFrom([]string{"", "  "}).Draw(rt, "indent")
		st := m.Stat()
		nt := st.Entries > 0 && (st.Unions+st.Enums+st.Decimals+st.Int64s+st.Binaries) > 0
		key := v.Name + "|" + entry + "|" + string(rune('0'+cfgI)) + "|" + m.Dump()
		rec.Case(key, nt, append(th.TreeClasses(v, st), "cfg:"+string(rune('0'+cfgI)), "entry:"+entry)...)
		th.SampleTree(rec, v, m, entry)

		render := func(gs ygot.GoStruct) ([]byte, error) {
			if entry == "Marshal7951" {
				args := []ygot.Marshal7951Arg{}
				if cfg != nil {
					args = append(args, cfg)
				}
				if indent != "" {
					args = append(args, ygot.JSONIndent(indent))
				}
				return ygot.Marshal7951(gs, args...)
			}
			s, err := ygot.EmitJSON(gs, &ygot.EmitJSONConfig{Format: ygot.RFC7951, RFC7951Config: cfg, Indent: indent, SkipValidation: true})
			return []byte(s), err
		}
		gs := model.Build(m)
		js, err := render(gs)
		if err != nil {
			rt.Fatalf("render (%s, cfg %d) failed: %v\ntree:\n%s", entry, cfgI, err, m.Dump())
		}
		root := v.NewRoot()
		if err := v.Unmarshal(js, root); err != nil {
			if rec.Excuse(th.F28, th.IsF28(v, m, err)) {
				return
			}
			rt.Fatalf("Unmarshal of ygot's own RFC7951 output failed: %v\njson: %s\ntree:\n%s", err, js, m.Dump())
		}
		got := model.ObserveNorm(v, root)
		if d := model.Diff(m, got, model.DiffOpts{}); len(d) > 0 {
			rt.Fatalf("round trip lost or changed data (variant %s, %s, cfg %d):\n  %s\njson: %s\ntree:\n%s", v.Name, entry, cfgI, th.JoinDiff(d), js, m.Dump())
		}
		js2, err := render(root)
		if err != nil {
			rt.Fatalf("re-render failed: %v", err)
		}
		if !bytes.Equal(js, js2) {
			rt.Fatalf("re-rendered JSON differs (variant %s, %s, cfg %d)\nfirst:  %s\nsecond: %s", v.Name, entry, cfgI, js, js2)
		}
	})
}
