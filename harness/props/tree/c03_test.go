package tree

import (
	"fmt"
	"google.golang.org/protobuf/proto"
	"sort"
	"strings"
	"testing"

	gpb "github.com/openconfig/gnmi/proto/gnmi"
	"github.com/openconfig/ygot/ygot"
	"github.com/openconfig/ygot/ytypes"
	"pgregory.net/rapid"
	"verifharness/ev"
	"verifharness/model"
	"verifharness/th"
)

// leafView is the path view used by C03: id -> instance. With single, a field that maps to several
// paths contributes only its shortest path (DiffPathOpt.MapToSinglePath); outsideOrdered drops
// everything below ordered-by-user lists.
func leafView(n *model.Node, single, outsideOrdered bool) map[string]model.Inst {
	out := map[string]model.Inst{}
	for _, in := range model.Instances(n, nil, model.InstOpts{AllAlts: true}) {
		if single {
			best := 0
			for a, p := range in.F.Paths {
				if len(p) < len(in.F.Paths[best]) {
					best = a
				}
			}
			if in.Alt != best {
				continue
			}
		}
		out[in.ID()] = in
	}
	if outsideOrdered {
		for _, s := range model.Sites(n) {
			if !s.InOrdered {
				continue
			}
			pfx := model.ElemsID(s.Elems) + "/"
			for id := range out {
				if strings.HasPrefix(id, pfx) {
					delete(out, id)
				}
			}
		}
	}
	return out
}

// setDelta lists got-only and want-only members.
func setDelta(got, want map[string]bool) string {
	var a, b []string
	for k := range got {
		if !want[k] {
			a = append(a, k)
		}
	}
	for k := range want {
		if !got[k] {
			b = append(b, k)
		}
	}
	sort.Strings(a)
	sort.Strings(b)
	return fmt.Sprintf("only in ygot's output: %v\nonly in the reference: %v", a, b)
}

func sortedIDs(m map[string]bool) []string {
	var r []string
	for k := range m {
		r = append(r, k)
	}
	sort.Strings(r)
	return r
}

// decodeUpdate renders the value of an update for the leaf it resolves to.
func decodeUpdate(f *model.FieldInfo, tv *gpb.TypedValue) (string, error) {
	if f.Kind == model.FLeafList {
		l, err := model.DecodeLeafListTV(f.Type, tv)
		if err != nil {
			return "", err
		}
		p := make([]string, len(l))
		for i, x := range l {
			p[i] = x.LooseCanon()
		}
		return "[" + strings.Join(p, " ") + "]", nil
	}
	x, err := model.DecodeTV(f.Type, tv)
	if err != nil {
		return "", err
	}
	return x.LooseCanon(), nil
}

// orderedEqual says whether all ordered lists of a and b are identical (same entries, same order).
func orderedEqual(a, b *model.Node) bool {
	return ordDump(a) == ordDump(b) && ordContent(a) == ordContent(b)
}

// ordContent renders the content of all ordered-list entries canonically (sorted path views), so that
// the order in which the model happens to hold nested unordered lists does not matter.
func ordContent(n *model.Node) string {
	var sb strings.Builder
	for _, s := range model.Sites(n) {
		for _, f := range s.N.SI.Fields {
			if f.Kind == model.FOrdList && len(s.N.List[f.Name]) > 0 {
				for _, e := range s.N.List[f.Name] {
					lm := model.LeafMap(e.N, model.InstOpts{})
					var ks []string
					for k, x := range lm {
						ks = append(ks, k+"="+x)
					}
					sort.Strings(ks)
					sb.WriteString(model.ElemsID(s.Elems) + "/" + f.Name + "[" + model.KeyCanon(e.Key) + "]{" + strings.Join(ks, ";") + "}\n")
				}
			}
		}
	}
	return sb.String()
}

func ordDump(n *model.Node) string {
	var sb strings.Builder
	for _, s := range model.Sites(n) {
		for _, f := range s.N.SI.Fields {
			if f.Kind == model.FOrdList && len(s.N.List[f.Name]) > 0 {
				sb.WriteString(model.ElemsID(s.Elems) + "/" + f.Name + "\n")
				// the key sequence only: the content of the entries is compared through the leaf sets, and a
				// dump of it would depend on the (meaningless) order of nested unordered lists
				for _, e := range s.N.List[f.Name] {
					sb.WriteString(model.KeyCanon(e.Key) + "\n")
				}
			}
		}
	}
	return sb.String()
}

func applyNotifications(v *model.Variant, start *model.Node, ns []*gpb.Notification) (*model.Node, error) {
	root := model.Build(start)
	sch := &ytypes.Schema{Root: root, SchemaTree: v.Schema().SchemaTree, Unmarshal: v.Schema().Unmarshal}
	if err := ytypes.UnmarshalNotifications(sch, ns); err != nil {
		return nil, err
	}
	return model.ObserveNorm(v, root), nil
}

// leafSetDiff compares the leaf sets (path views) of two trees, optionally with ordered-list order.
func leafSetDiff(want, got *model.Node, order bool) []string {
	w, g := want.Clone().Normalize().DropEmptyContainers(), got.Clone().Normalize().DropEmptyContainers()
	d := model.Diff(w, g, model.DiffOpts{IgnoreOrder: !order, IgnorePresence: true})
	if len(d) == 0 {
		return nil
	}
	// model.Diff also compares list entries; restrict to leaves: compare path views
	wm, gm := model.LeafMap(w, model.InstOpts{}), model.LeafMap(g, model.InstOpts{})
	var out []string
	for k, x := range wm {
		if y, ok := gm[k]; !ok {
			out = append(out, "missing leaf "+k+" = "+x)
		} else if x != y {
			out = append(out, "leaf "+k+": want "+x+" got "+y)
		}
	}
	for k, y := range gm {
		if _, ok := wm[k]; !ok {
			out = append(out, "extra leaf "+k+" = "+y)
		}
	}
	sort.Strings(out)
	if len(out) == 0 && order && ordDump(w) != ordDump(g) {
		out = append(out, "ordered lists differ in order:\nwant:\n"+ordDump(w)+"got:\n"+ordDump(g))
	}
	if len(out) > 8 {
		out = out[:8]
	}
	return out
}

func genPair(rt *rapid.T, rec *ev.Rec, v *model.Variant) (a, b *model.Node, edits []string, kind string) {
	o := model.GenOpts{NoUnkeyed: true}
	th.SteerAway(rec, &o)
	a = model.GenTree(rt, v, o)
	if rapid.IntRange(0, 9).Draw(rt, "pairkind") < 7 {
		k := rapid.IntRange(0, 6).Draw(rt, "edits")
		b, edits = model.Mutate(rt, v, a, k, model.MutOpts{Gen: o})
		return a, b, edits, "mutation"
	}
	b = model.GenTree(rt, v, o)
	return a, b, nil, "independent"
}

// C03: Diff is sound, complete and minimal (DESIGN.md 5/C03).
func TestC03_Pairs(t *testing.T) {
	rec := ev.Start(t, "C03")
	rec.Rule("pairs (a,b) of schema-conforming trees: b is a k-edit mutation of a (70%) or independent (30%); options none / IgnoreAdditions / DiffPathOpt{MapToSinglePath}; " +
		"oracle 1 (element-wise on the path view): updates = leaves of b absent in a or different, with b's value; deletes = leaves of a absent in b; Diff(a,a) empty; IgnoreAdditions omits exactly the leaves new in b; " +
		"oracle 2: applying Diff / DiffWithAtomic with UnmarshalNotifications to a fresh build of a gives b's leaf set (DiffWithAtomic: also b's ordered-list order); histories apply successive diffs to one tree; " +
		"non-trivial = the pair differs in >=2 leaves of which one is inside a list entry; distinct by variant+a+b+option")
	rec.Assume("unkeyed lists are outside the domain (cannot be rendered to gNMI); plain Diff output is applied only when the ordered-by-user lists of a and b are identical (documented: granular updates of ordered lists cannot be unmarshalled directly; DiffWithAtomic has no such restriction)")
	th.WitnessAll(rec)
	rapid.Check(t, func(rt *rapid.T) {
		v := th.PickVariant(rt, th.AllVariants...)
		a, b, edits, kind := genPair(rt, rec, v)
		optI := rapid.IntRange(0, 5).Draw(rt, "opt")
		var opts []ygot.DiffOpt
		single, ignoreAdd := false, false
		switch optI {
		case 1:
			opts = append(opts, &ygot.IgnoreAdditions{})
			ignoreAdd = true
		case 2:
			opts = append(opts, &ygot.DiffPathOpt{MapToSinglePath: true})
			single = true
		case 4: // both options, in either order
			opts = append(opts, &ygot.DiffPathOpt{MapToSinglePath: true}, &ygot.IgnoreAdditions{})
			single, ignoreAdd = true, true
		case 5:
			opts = append(opts, &ygot.IgnoreAdditions{}, &ygot.DiffPathOpt{MapToSinglePath: true})
			single, ignoreAdd = true, true
		}
		va, vb := leafView(a, single, false), leafView(b, single, false)
		wantUpd, wantDel := map[string]bool{}, map[string]bool{}
		inEntry := false
		for id, ib := range vb {
			ia, ok := va[id]
			if (!ok && !ignoreAdd) || (ok && ia.ValueCanon() != ib.ValueCanon()) {
				wantUpd[id] = true
				if strings.Contains(id, "[") {
					inEntry = true
				}
			}
		}
		for id := range va {
			if _, ok := vb[id]; !ok {
				wantDel[id] = true
				if strings.Contains(id, "[") {
					inEntry = true
				}
			}
		}
		nt := len(wantUpd)+len(wantDel) >= 2 && inEntry
		cl := append(th.TreeClasses(v, b.Stat()), "pair:"+kind, fmt.Sprintf("opt:%d", optI))
		if len(wantUpd)+len(wantDel) == 0 {
			cl = append(cl, "pair:equal")
		}
		ordSame := orderedEqual(a, b)
		if !ordSame {
			cl = append(cl, "pair:ordered-list-differs")
		}
		rec.Case(fmt.Sprintf("%s|%d|%s|%s", v.Name, optI, a.Dump(), b.Dump()), nt, cl...)
		if rec.WantSample() {
			rec.Sample(map[string]interface{}{"variant": v.Name, "opt": optI, "edits": edits, "a": th.Trunc(a.Dump(), 700), "b": th.Trunc(b.Dump(), 700)})
		}
		desc := func() string {
			return fmt.Sprintf("variant %s option %d (%s pair) edits %v\na:\n%s\nb:\n%s", v.Name, optI, kind, edits, a.Dump(), b.Dump())
		}

		// ---- Diff: element-wise ----
		ga, gb := model.Build(a), model.Build(b)
		n, err := ygot.Diff(ga, gb, opts...)
		if err != nil {
			rt.Fatalf("Diff failed: %v\n%s", err, desc())
		}
		gotUpd, gotDel := map[string]bool{}, map[string]bool{}
		for _, u := range n.Update {
			r, err := v.ResolvePath(joinPath(n.Prefix, u.Path))
			if err != nil {
				rt.Fatalf("Diff update path %s does not resolve: %v\n%s", model.PathString(u.Path), err, desc())
			}
			id := r.ID()
			if gotUpd[id] {
				rt.Fatalf("Diff emits two updates for %s\n%s", id, desc())
			}
			gotUpd[id] = true
			ib, ok := vb[id]
			if !ok {
				rt.Fatalf("Diff update names %s which is not a leaf of b\n%s", id, desc())
			}
			val, err := decodeUpdate(ib.F, u.Val)
			if err != nil {
				rt.Fatalf("Diff update %s: %v\n%s", id, err, desc())
			}
			if val != ib.ValueCanon() {
				rt.Fatalf("Diff update %s carries %s, b holds %s\n%s", id, val, ib.ValueCanon(), desc())
			}
		}
		for _, d := range n.Delete {
			r, err := v.ResolvePath(joinPath(n.Prefix, d))
			if err != nil {
				rt.Fatalf("Diff delete path %s does not resolve: %v\n%s", model.PathString(d), err, desc())
			}
			gotDel[r.ID()] = true
		}
		if fmt.Sprint(sortedIDs(gotUpd)) != fmt.Sprint(sortedIDs(wantUpd)) {
			rt.Fatalf("Diff updates differ from the reference\n%s\n%s", setDelta(gotUpd, wantUpd), desc())
		}
		if fmt.Sprint(sortedIDs(gotDel)) != fmt.Sprint(sortedIDs(wantDel)) {
			rt.Fatalf("Diff deletes differ from the reference\n%s\n%s", setDelta(gotDel, wantDel), desc())
		}
		// Diff(a, a) is empty
		if n2, err := ygot.Diff(ga, model.Build(a), opts...); err != nil || len(n2.Update)+len(n2.Delete) > 0 {
			rt.Fatalf("Diff(a, a) is not empty: err=%v %v\n%s", err, n2, desc())
		}

		// ---- apply Diff (only without IgnoreAdditions, and when ordered lists are untouched) ----
		if !ignoreAdd && ordSame {
			got, err := applyNotifications(v, a, []*gpb.Notification{n})
			if err != nil {
				if rec.Excuse(th.F28, th.IsF28(v, b, err)) {
					return
				}
				rt.Fatalf("applying Diff(a,b) to a failed: %v\n%s\nnotification: %s", err, desc(), notifText([]*gpb.Notification{n}))
			}
			if d := leafSetDiff(b, got, false); len(d) > 0 {
				rt.Fatalf("a + Diff(a,b) != b:\n  %s\n%s\nnotification: %s", th.JoinDiff(d), desc(), notifText([]*gpb.Notification{n}))
			}
		}

		// ---- DiffWithAtomic: apply ----
		if !ignoreAdd {
			ns, err := ygot.DiffWithAtomic(ga, gb, opts...)
			if err != nil {
				rt.Fatalf("DiffWithAtomic failed: %v\n%s", err, desc())
			}
			got, err := applyNotifications(v, a, ns)
			if err != nil {
				if rec.Excuse(th.F28, th.IsF28(v, b, err)) {
					return
				}
				rt.Fatalf("applying DiffWithAtomic(a,b) to a failed: %v\n%s\nnotifications: %s", err, desc(), notifText(ns))
			}
			if d := leafSetDiff(b, got, true); len(d) > 0 {
				rt.Fatalf("a + DiffWithAtomic(a,b) != b:\n  %s\n%s\nnotifications: %s", th.JoinDiff(d), desc(), notifText(ns))
			}
			// the non-atomic part obeys the element-wise reference outside ordered lists
			oa, ob := leafView(a, single, true), leafView(b, single, true)
			for _, nn := range ns {
				if nn.Atomic {
					continue
				}
				for _, u := range nn.Update {
					r, err := v.ResolvePath(joinPath(nn.Prefix, u.Path))
					if err != nil {
						rt.Fatalf("DiffWithAtomic update path does not resolve: %v\n%s", err, desc())
					}
					ib, ok := ob[r.ID()]
					if !ok {
						rt.Fatalf("DiffWithAtomic non-atomic update %s is not a leaf of b outside ordered lists\n%s\nnotifications: %s", r.ID(), desc(), notifText(ns))
					}
					if ia, ok := oa[r.ID()]; ok && ia.ValueCanon() == ib.ValueCanon() {
						rt.Fatalf("DiffWithAtomic updates %s although a and b agree on it\n%s", r.ID(), desc())
					}
				}
			}
		}
	})
}

// TestC03_History applies successive diffs to one tree.
func TestC03_History(t *testing.T) {
	rec := ev.Start(t, "C03")
	th.WitnessAll(rec)
	rapid.Check(t, func(rt *rapid.T) {
		v := th.PickVariant(rt, th.AllVariants...)
		o := model.GenOpts{NoUnkeyed: true}
		th.SteerAway(rec, &o)
		cur := model.GenTree(rt, v, o)
		steps := rapid.IntRange(2, 5).Draw(rt, "steps")
		root := model.Build(cur)
		sch := &ytypes.Schema{Root: root, SchemaTree: v.Schema().SchemaTree, Unmarshal: v.Schema().Unmarshal}
		var hist []string
		changed := 0
		// the same history is also applied in ONE UnmarshalNotifications call (all diffs concatenated) to a
		// second copy of the first version: a consumer may batch what it received
		batchRoot := model.Build(cur)
		batchSch := &ytypes.Schema{Root: batchRoot, SchemaTree: v.Schema().SchemaTree, Unmarshal: v.Schema().Unmarshal}
		var batch []*gpb.Notification
		first := cur
		defer func() {
			if rt.Failed() || len(batch) == 0 {
				return
			}
			if err := ytypes.UnmarshalNotifications(batchSch, batch); err != nil {
				if rec.Excuse(th.F28, th.IsF28(v, cur, err)) {
					return
				}
				rt.Fatalf("applying the diffs of all %d steps in one call failed: %v\nhistory %v\nfirst version:\n%s\nlast version:\n%s\nnotifications: %s", steps, err, hist, first.Dump(), cur.Dump(), notifText(batch))
			}
			if d := leafSetDiff(cur, model.ObserveNorm(v, batchRoot), true); len(d) > 0 {
				rt.Fatalf("the diffs of all %d steps applied in one call do not give the last version:\n  %s\nhistory %v\nfirst version:\n%s\nlast version:\n%s\nnotifications: %s", steps, th.JoinDiff(d), hist, first.Dump(), cur.Dump(), notifText(batch))
			}
		}()
		for i := 0; i < steps; i++ {
			next, edits := model.Mutate(rt, v, cur, rapid.IntRange(1, 4).Draw(rt, "edits"), model.MutOpts{Gen: o})
			hist = append(hist, fmt.Sprintf("step %d: %v", i, edits))
			ns, err := ygot.DiffWithAtomic(model.Build(cur), model.Build(next))
			if err != nil {
				rt.Fatalf("DiffWithAtomic failed at step %d: %v\nhistory %v\ntree:\n%s", i, err, hist, next.Dump())
			}
			if len(ns) > 0 {
				changed++
			}
			for _, n := range ns {
				batch = append(batch, proto.Clone(n).(*gpb.Notification))
			}
			if err := ytypes.UnmarshalNotifications(sch, ns); err != nil {
				if rec.Excuse(th.F28, th.IsF28(v, next, err)) {
					batch = nil // the history ends here: nothing to apply in one call either
					return
				}
				rt.Fatalf("applying the diff of step %d failed: %v\nhistory %v\nbefore:\n%s\nafter:\n%s\nnotifications: %s", i, err, hist, cur.Dump(), next.Dump(), notifText(ns))
			}
			got := model.ObserveNorm(v, root)
			if d := leafSetDiff(next, got, true); len(d) > 0 {
				rt.Fatalf("after step %d the tree differs from version %d:\n  %s\nhistory %v\nbefore:\n%s\nafter:\n%s\nnotifications: %s", i, i+1, th.JoinDiff(d), hist, cur.Dump(), next.Dump(), notifText(ns))
			}
			cur = next
		}
		rec.Case(v.Name+"|hist|"+strings.Join(hist, ";")+cur.Dump(), changed >= 2 && cur.Stat().Entries > 0, "history", "variant:"+v.Name)
	})
}
