package tree

import (
	"fmt"
	"strings"
	"testing"

	gpb "github.com/openconfig/gnmi/proto/gnmi"
	"github.com/openconfig/ygot/ygot"
	"github.com/openconfig/ygot/ytypes"
	"google.golang.org/protobuf/encoding/prototext"
	"pgregory.net/rapid"
	"verifharness/ev"
	"verifharness/model"
	"verifharness/th"
)

func notifText(ns []*gpb.Notification) string {
	var sb strings.Builder
	for _, n := range ns {
		sb.WriteString(prototext.MarshalOptions{Multiline: false}.Format(n))
		sb.WriteString("\n")
	}
	return th.Trunc(sb.String(), 2500)
}

// joinPath concatenates prefix and path.
func joinPath(prefix, p *gpb.Path) *gpb.Path {
	out := &gpb.Path{}
	out.Elem = append(out.Elem, prefix.GetElem()...)
	out.Elem = append(out.Elem, p.GetElem()...)
	return out
}

// C02: gNMI notification round-trip is lossless (DESIGN.md 5/C02).
func TestC02(t *testing.T) {
	rec := ev.Start(t, "C02")
	rec.Rule("variant x generated tree (incl. non-nil empty leaf-lists, every list-key type, unions, ordered lists) x a container/list-entry node n of it; " +
		"TogNMINotifications(subtree at n, PathElem form, prefix = path(n)) applied with UnmarshalNotifications to an empty root must not be rejected and must give exactly the leaves and leaf-lists of the subtree re-rooted at path(n), ordered lists in the same order; " +
		"each emitted update must also resolve to a leaf of the model and decode to its value, and every model leaf must be emitted; " +
		"non-trivial = subtree has a keyed-list entry and a leaf-list or union value; distinct by variant+site+tree")
	rec.Assume("unkeyed lists are outside the domain (documented: keyless list cannot be output); key strings in the prefix are the RFC 7950 canonical forms")
	th.WitnessAll(rec)
	rapid.Check(t, func(rt *rapid.T) {
		v := th.PickVariant(rt, th.AllVariants...)
		o := model.GenOpts{NoUnkeyed: true, EmptyLLs: true}
		th.SteerAway(rec, &o)
		m := model.GenTree(rt, v, o)
		sites := model.Sites(m)
		si := 0
		if rapid.IntRange(0, 2).Draw(rt, "atroot") > 0 && len(sites) > 1 {
			si = rapid.IntRange(1, len(sites)-1).Draw(rt, "site")
		}
		site := sites[si]
		sub := site.N
		st := sub.Stat()
		nt := st.Entries > 0 && (st.LeafLists > 0 || st.Unions > 0)
		emptyLL := sub.AnyField(func(n *model.Node, f *model.FieldInfo) bool { return f.Kind == model.FLeafList && n.EmptyLL[f.Name] })
		cl := th.TreeClasses(v, st)
		if si > 0 {
			cl = append(cl, "site:"+site.Via[len(site.Via)-1].Kind.String())
		} else {
			cl = append(cl, "site:root")
		}
		if emptyLL {
			cl = append(cl, "tree:empty-non-nil-leaf-list")
		}
		rec.Case(v.Name+"|"+model.ElemsID(site.Elems)+"|"+sub.Dump(), nt, cl...)
		th.SampleTree(rec, v, sub, "site "+model.ElemsID(site.Elems))

		gs := model.Build(sub)
		prefix := model.PathProto(site.Elems)
		ns, err := ygot.TogNMINotifications(gs, 42, ygot.GNMINotificationsConfig{UsePathElem: true, PathElemPrefix: prefix.Elem})
		if err != nil {
			if rec.Excuse(th.F1, th.IsF1Err(sub, err)) {
				return
			}
			rt.Fatalf("TogNMINotifications failed on a schema-conforming tree: %v\nvariant %s site %s\ntree:\n%s", err, v.Name, model.ElemsID(site.Elems), sub.Dump())
		}
		want := model.Graft(v.Root, site, sub.Clone()).Normalize().DropEmptyContainers()
		if len(model.Instances(sub, nil, model.InstOpts{})) == 0 {
			// a subtree without leaves produces no update, hence no ancestors either
			want = model.NewNode(v.Root)
		}

		// element-wise: every update names a leaf of the subtree with the model's value; every leaf is emitted
		insts := map[string]model.Inst{}
		first := map[string]bool{}
		for _, in := range model.Instances(sub, site.Elems, model.InstOpts{AllAlts: true}) {
			insts[in.ID()] = in
			if in.Alt == 0 {
				first[in.ID()] = true
			}
		}
		emitted := map[string]bool{}
		for _, n := range ns {
			for _, u := range n.Update {
				full := joinPath(n.Prefix, u.Path)
				r, err := v.ResolvePath(full)
				if err != nil {
					if rec.Excuse(th.F1, th.HasInt64Key(sub)) {
						return
					}
					rt.Fatalf("emitted update path %s does not resolve in the schema: %v\nnotifications:\n%s", model.PathString(full), err, notifText(ns))
				}
				in, ok := insts[r.ID()]
				if !ok {
					if n.Atomic || emptyLL && r.Last.Kind == model.FLeafList {
						emitted[r.ID()] = true
						continue
					}
					rt.Fatalf("emitted update %s names no leaf of the tree\nvariant %s site %s\ntree:\n%s\nnotifications:\n%s", model.PathString(full), v.Name, model.ElemsID(site.Elems), sub.Dump(), notifText(ns))
				}
				emitted[r.ID()] = true
				var got string
				if in.F.Kind == model.FLeafList {
					l, err := model.DecodeLeafListTV(in.F.Type, u.Val)
					if err != nil {
						rt.Fatalf("update %s: %v", model.PathString(full), err)
					}
					p := make([]string, len(l))
					for i, x := range l {
						p[i] = x.LooseCanon()
					}
					got = "[" + strings.Join(p, " ") + "]"
				} else {
					x, err := model.DecodeTV(in.F.Type, u.Val)
					if err != nil {
						rt.Fatalf("update %s: %v", model.PathString(full), err)
					}
					got = x.LooseCanon()
				}
				if got != in.ValueCanon() {
					rt.Fatalf("update %s carries %s, the tree holds %s\ntree:\n%s", model.PathString(full), got, in.ValueCanon(), sub.Dump())
				}
			}
		}
		for id := range first {
			if !emitted[id] {
				rt.Fatalf("leaf %s of the tree is not in the notifications\nvariant %s site %s\ntree:\n%s\nnotifications:\n%s", id, v.Name, model.ElemsID(site.Elems), sub.Dump(), notifText(ns))
			}
		}

		// round trip
		root := v.NewRoot()
		sch := &ytypes.Schema{Root: root, SchemaTree: v.Schema().SchemaTree, Unmarshal: v.Schema().Unmarshal}
		if err := ytypes.UnmarshalNotifications(sch, ns); err != nil {
			if rec.Excuse(th.F28, th.IsF28(v, sub, err)) || rec.Excuse(th.F2, th.IsF2Err(sub, err)) || rec.Excuse(th.F3, th.IsF3Err(emptyLL, err)) || rec.Excuse(th.F1, th.IsF1Err(sub, err)) {
				return
			}
			rt.Fatalf("UnmarshalNotifications rejected ygot's own notifications: %v\nvariant %s site %s\ntree:\n%s\nnotifications:\n%s", err, v.Name, model.ElemsID(site.Elems), sub.Dump(), notifText(ns))
		}
		got := model.ObserveNorm(v, root).DropEmptyContainers()
		if d := model.Diff(want, got, model.DiffOpts{}); len(d) > 0 {
			if rec.Excuse(th.F1, th.HasInt64Key(sub)) {
				return
			}
			rt.Fatalf("gNMI round trip lost or changed data (variant %s, site %s):\n  %s\ntree:\n%s\nnotifications:\n%s", v.Name, model.ElemsID(site.Elems), th.JoinDiff(d), sub.Dump(), notifText(ns))
		}
	})
	_ = fmt.Sprint
}
