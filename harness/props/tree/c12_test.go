package tree

import (
	"fmt"
	"reflect"
	"strings"
	"testing"

	"github.com/openconfig/ygot/ygot"
	"github.com/openconfig/ygot/ytypes"
	"pgregory.net/rapid"
	"verifharness/ev"
	"verifharness/model"
	"verifharness/th"
)

// structEmpty says whether a node corresponds to the zero struct: nothing set at all (an empty
// presence container child still counts as content: its pointer is non-nil).
func structEmpty(n *model.Node) bool {
	if len(n.Leaf) > 0 || len(n.Cont) > 0 {
		return false
	}
	for _, l := range n.LL {
		if len(l) > 0 {
			return false
		}
	}
	for _, l := range n.List {
		if len(l) > 0 {
			return false
		}
	}
	for _, l := range n.UList {
		if len(l) > 0 {
			return false
		}
	}
	return true
}

// refDelete is the reference semantics of DeleteNode on the model (DESIGN.md 3.5): remove what the
// target addresses, then set to nil every traversed container that is equal to the empty struct.
// It returns whether data existed at the target.
func refDelete(root *model.Node, tg *model.Target) bool {
	// walk down as far as data exists, remembering the traversed containers
	type step struct {
		parent *model.Node
		f      *model.FieldInfo
		node   *model.Node
	}
	var trav []step
	cur := root
	ki := 0
	existed := false
	for i, f := range tg.Via {
		last := i == len(tg.Via)-1
		if cur == nil {
			break
		}
		switch f.Kind {
		case model.FLeaf:
			if _, ok := cur.Leaf[f.Name]; ok {
				existed = true
				delete(cur.Leaf, f.Name)
			}
		case model.FLeafList:
			if len(cur.LL[f.Name]) > 0 {
				existed = true
				delete(cur.LL, f.Name)
			}
		case model.FCont:
			c := cur.Cont[f.Name]
			if last {
				if c != nil {
					existed = true
					delete(cur.Cont, f.Name)
				}
				cur = nil
				break
			}
			if c != nil {
				trav = append(trav, step{cur, f, c})
			}
			cur = c
		case model.FList, model.FOrdList:
			key := tg.Keys[ki]
			ki++
			if key == nil { // whole list
				if len(cur.List[f.Name]) > 0 {
					existed = true
					delete(cur.List, f.Name)
				}
				cur = nil
				break
			}
			var hit *model.Entry
			idx := -1
			for j, e := range cur.List[f.Name] {
				if model.KeyLoose(e.Key) == model.KeyLoose(key) {
					hit, idx = e, j
				}
			}
			if last {
				if hit != nil {
					existed = true
					l := cur.List[f.Name]
					l = append(append([]*model.Entry(nil), l[:idx]...), l[idx+1:]...)
					if len(l) == 0 {
						delete(cur.List, f.Name)
					} else {
						cur.List[f.Name] = l
					}
				}
				cur = nil
				break
			}
			if hit == nil {
				cur = nil
			} else {
				cur = hit.N
			}
		}
	}
	// prune traversed containers bottom-up
	for i := len(trav) - 1; i >= 0; i-- {
		if structEmpty(trav[i].node) {
			delete(trav[i].parent.Cont, trav[i].f.Name)
		}
	}
	return existed
}

// observeKeepShells observes root and drops only empty lists / leaf-lists, keeping empty containers.
func observeKeepShells(v *model.Variant, gs ygot.GoStruct) *model.Node {
	n := model.Observe(v, gs)
	var walk func(n *model.Node)
	walk = func(n *model.Node) {
		for k, l := range n.LL {
			if len(l) == 0 {
				delete(n.LL, k)
			}
		}
		n.EmptyLL = map[string]bool{}
		for k, l := range n.List {
			if len(l) == 0 {
				delete(n.List, k)
			}
			for _, e := range l {
				walk(e.N)
			}
		}
		for k, l := range n.UList {
			if len(l) == 0 {
				delete(n.UList, k)
			}
			for _, e := range l {
				walk(e)
			}
		}
		for _, c := range n.Cont {
			walk(c)
		}
	}
	walk(n)
	return n
}

func targetKind(tg *model.Target) string {
	switch {
	case tg.F.Kind == model.FLeaf || tg.F.Kind == model.FLeafList || tg.F.Kind == model.FCont:
		return tg.F.Kind.String()
	case tg.AtEntry:
		return tg.F.Kind.String() + "-entry"
	}
	return "whole-" + tg.F.Kind.String()
}

// C12: DeleteNode removes exactly the addressed subtree (DESIGN.md 5/C12).
func TestC12(t *testing.T) {
	rec := ev.Start(t, "C12")
	rec.Rule("histories of <=6 DeleteNode calls on a generated tree in normal form: targets = container / whole list / list entry / leaf / leaf-list paths, present or absent, incl. ordered lists, each possibly repeated; " +
		"oracle: reference deleteSubtree on the model (remove the addressed data, then nil every traversed container that equals the empty struct); after each call the observed tree (empty shells kept visible) equals the model, GetNode finds no data at or below p, and an immediately repeated delete changes nothing; " +
		"non-trivial = some target is a non-leaf or lies inside a list entry and held data; distinct by variant+tree+history")
	rec.Assume("start trees are in normal form (no empty non-presence containers or maps); a key leaf is never deleted on its own; no wildcard or partial keys; targets are nodes of the GoStruct tree")
	th.WitnessAll(rec)
	th.WitnessF21(rec)
	th.WitnessF22(rec)
	rapid.Check(t, func(rt *rapid.T) {
		v := th.PickVariant(rt, th.AllVariants...)
		o := model.GenOpts{}
		th.SteerAway(rec, &o)
		m := model.GenTree(rt, v, o)
		// one tree in four is built the way a caller who reuses values builds it: equal scalar leaves of one
		// Go type share a single variable; the library must not write through such a pointer
		root := model.Build(m)
		if rapid.IntRange(0, 3).Draw(rt, "sharedleaves") == 0 {
			root = model.BuildShared(m)
		}
		rs := v.Schema().SchemaTree[reflect.TypeOf(root).Elem().Name()]
		steps := rapid.IntRange(1, 6).Draw(rt, "steps")
		var hist, cl []string
		nt := false
		for i := 0; i < steps; i++ {
			tg := model.PickTarget(rt, v, m, model.TargetOpts{NoKeyLeaf: true, AllowOrdered: true, AllowWholeList: true, NewKeyPct: 15, Gen: o})
			if tg == nil || tg.F == nil {
				continue
			}
			// shadow paths (variant generated with -ignore_shadow_schema_paths): a leaf may be
			// addressed through its shadow path; the delete takes effect exactly when the path kind
			// matches the PreferShadowPath option, otherwise it is documented to be ignored.
			var dopts []ytypes.DelNodeOpt
			viaShadow, prefer := false, false
			if v.IgnoreShadow {
				prefer = rapid.Bool().Draw(rt, "prefer-shadow")
				if prefer {
					dopts = append(dopts, &ytypes.PreferShadowPath{})
				}
				if f := tg.F; (f.Kind == model.FLeaf || f.Kind == model.FLeafList) && len(f.Shadow) > 0 && rapid.Bool().Draw(rt, "via-shadow") {
					viaShadow = true
					tg.Elems = append(append([]model.PElem{}, tg.Elems[:len(tg.Elems)-len(f.Paths[tg.Alt])]...), pelems(f.Shadow[0])...)
				}
			}
			p := model.PathProto(tg.Elems)
			kind := targetKind(tg)
			before := m.Clone()
			existed, ignored := false, false
			if shadowed := (tg.F.Kind == model.FLeaf || tg.F.Kind == model.FLeafList) && len(tg.F.Shadow) > 0 && viaShadow != prefer; shadowed {
				// ignored path: nothing is deleted (the corpus variant with shadow paths has no
				// presence containers, so there is no empty shell on the way that could be pruned)
				kind += "-ignored-shadow"
				ignored = true
			} else {
				existed = refDelete(m, tg)
			}
			if viaShadow {
				kind += "-via-shadow-path"
			}
			step := fmt.Sprintf("DeleteNode(%s) [%s, data %v]", model.PathString(p), kind, existed)
			hist = append(hist, step)
			cl = append(cl, "target:"+kind, fmt.Sprintf("target-existed:%v", existed))
			if existed && (tg.F.Kind != model.FLeaf && tg.F.Kind != model.FLeafList || len(tg.Keys) > 0) {
				nt = true
			}
			desc := func() string {
				return fmt.Sprintf("variant %s\nhistory:\n  %s\ntree before the last step:\n%s", v.Name, strings.Join(hist, "\n  "), before.Dump())
			}
			err := ytypes.DeleteNode(rs, root, p, dopts...)
			wholeList := !tg.AtEntry && (tg.F.Kind == model.FList || tg.F.Kind == model.FOrdList)
			if err != nil {
				if rec.Excuse(th.F21, wholeList && th.IsNotFound(err)) {
					// known: nothing is deleted; the frame condition still has to hold
					if d := model.Diff(before, observeKeepShells(v, root), model.DiffOpts{LooseEnum: true}); len(d) > 0 {
						rt.Fatalf("DeleteNode(%s) failed (%v) and changed the tree:\n  %s\n%s", model.PathString(p), err, th.JoinDiff(d), desc())
					}
					m = before
					continue
				}
				rt.Fatalf("DeleteNode(%s) failed: %v\n%s", model.PathString(p), err, desc())
			}
			got := observeKeepShells(v, root)
			if d := model.Diff(m, got, model.DiffOpts{LooseEnum: true}); len(d) > 0 {
				if rec.Excuse(th.F22, th.OrderedEmptied(before, m)) {
					return
				}
				rt.Fatalf("after %s the tree differs from the reference:\n  %s\n%s\nreference after:\n%s", step, th.JoinDiff(d), desc(), m.Dump())
			}
			// nothing at or below p
			if nodes, gerr := ytypes.GetNode(rs, root, p); gerr == nil && !ignored {
				for _, n := range nodes {
					if n.Data != nil && !reflect.ValueOf(n.Data).IsZero() {
						rv := reflect.ValueOf(n.Data)
						if (rv.Kind() == reflect.Map || rv.Kind() == reflect.Slice) && rv.Len() == 0 {
							continue
						}
						rt.Fatalf("GetNode(%s) still finds data %v after DeleteNode\n%s", model.PathString(p), n.Data, desc())
					}
				}
			}
			// idempotence: an immediate second delete changes nothing
			if err := ytypes.DeleteNode(rs, root, p, dopts...); err != nil {
				if rec.Excuse(th.F21, wholeList && th.IsNotFound(err)) {
					return
				}
				rt.Fatalf("second DeleteNode(%s) failed: %v\n%s", model.PathString(p), err, desc())
			}
			if !ignored {
				refDelete(m, tg)
			}
			got2 := observeKeepShells(v, root)
			if d := model.Diff(m, got2, model.DiffOpts{LooseEnum: true}); len(d) > 0 {
				rt.Fatalf("a repeated %s changed the tree:\n  %s\n%s", step, th.JoinDiff(d), desc())
			}
		}
		rec.Case(v.Name+"|"+strings.Join(hist, ";")+"|"+m.Dump(), nt, append(cl, "variant:"+v.Name)...)
		if rec.WantSample() {
			rec.Sample(map[string]interface{}{"variant": v.Name, "history": hist})
		}
	})
}
