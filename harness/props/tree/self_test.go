package tree

import (
	"testing"

	"pgregory.net/rapid"
	"verifharness/model"
	"verifharness/variants"
)

// TestSelf is the harness self-check (DESIGN.md 3.3): observe(build(m)) == m for drawn models of
// every variant. A failure here is a harness bug, never a violation.
func TestSelf(t *testing.T) {
	for _, v := range variants.All {
		v := v
		t.Run(v.Name, func(t *testing.T) {
			v.MustInit()
			rapid.Check(t, func(rt *rapid.T) {
				m := model.GenTree(rt, v, model.GenOpts{})
				gs := model.Build(m)
				o := model.ObserveNorm(v, gs)
				if d := model.Diff(m, o, model.DiffOpts{}); len(d) > 0 {
					rt.Fatalf("HARNESS-BUG: observe(build(m)) != m: %v\nmodel:\n%s", d, m.Dump())
				}
				for _, o := range []model.JSONOpts{{}, {Prefix: true, AllAlts: true}, {IdentPrefix: true}} {
					js := model.RenderJSON(m, o)
					back, err := model.ParseJSON(v.Root, js)
					if err != nil {
						rt.Fatalf("HARNESS-BUG: strict decoder rejects harness rendering (%+v): %v\njson: %s", o, err, js)
					}
					if d := model.Diff(m, back.Normalize(), model.DiffOpts{}); len(d) > 0 {
						rt.Fatalf("HARNESS-BUG: ParseJSON(RenderJSON(m)) != m (%+v): %v\njson: %s", o, d, js)
					}
				}
				if dg := model.Dangling(m); len(dg) > 0 {
					rt.Fatalf("HARNESS-BUG: generator left dangling leafrefs: %v\nmodel:\n%s", dg, m.Dump())
				}
			})
		})
	}
}
