package tree

import (
	"fmt"

	gpb "github.com/openconfig/gnmi/proto/gnmi"
	"github.com/openconfig/ygot/ygot"
	"github.com/openconfig/ygot/ytypes"
	"verifharness/ev"
	"verifharness/variants"
)

// F97: with IgnoreExtraFields an update whose path runs through an EXISTING entry of a multi-key list and
// then names a node the schema does not have is not ignored: the traversal below the entry returns no node,
// retrieveNodeList takes that for "no entry has these keys" and stores a new, empty entry under the same
// key. The existing entry loses everything but its key leaves. Found by C13 when the generator started to
// use the option (single-key lists return early and are not affected).
const F97 = "F97-ignore-extra-fields-wipes-multikey-entry"

func witnessF97(rec *ev.Rec) {
	rec.Witness(F97, func() (bool, string) {
		v := variants.Get("vtu")
		root := v.NewRoot()
		doc := `{"top":{"keyed":{"mk2":[{"a":"x","b":0,"v":"data"},{"a":"y","b":1,"v":"data"}]}}}`
		if err := v.Unmarshal([]byte(doc), root); err != nil {
			panic("HARNESS-BUG: F97 witness: " + err.Error())
		}
		before, _ := ygot.Marshal7951(root)
		sch := &ytypes.Schema{Root: root, SchemaTree: v.Schema().SchemaTree, Unmarshal: v.Schema().Unmarshal}
		path := &gpb.Path{Elem: []*gpb.PathElem{{Name: "top"}, {Name: "keyed"}, {Name: "mk2", Key: map[string]string{"a": "x", "b": "0"}}, {Name: "zz-not-in-schema"}}}
		req := &gpb.SetRequest{Update: []*gpb.Update{{Path: path, Val: &gpb.TypedValue{Value: &gpb.TypedValue_StringVal{StringVal: "ignored"}}}}}
		if err := ytypes.UnmarshalSetRequest(sch, req, &ytypes.IgnoreExtraFields{}); err != nil {
			return false, "" // rejected instead of ignored: not this finding
		}
		after, _ := ygot.Marshal7951(root)
		if string(before) != string(after) {
			return true, fmt.Sprintf("an ignored update changed the tree: before %s after %s", before, after)
		}
		return false, ""
	})
}
