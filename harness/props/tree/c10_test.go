package tree

import (
	"fmt"
	"reflect"
	"strings"
	"testing"

	gpb "github.com/openconfig/gnmi/proto/gnmi"
	"github.com/openconfig/ygot/ytypes"
	"pgregory.net/rapid"
	"verifharness/ev"
	"verifharness/model"
	"verifharness/th"
)

// payload builds the TypedValue for writing value(s) to a leaf / leaf-list in one of the forms the
// gNMI specification allows: scalar (or leaflist_val) or a JSON_IETF scalar (array).
func payload(rt *rapid.T, f *model.FieldInfo, one model.Val, many []model.Val) (*gpb.TypedValue, string) {
	form := rapid.SampledFrom([]string{"scalar", "scalar", "json_ietf", "json_ietf_prefixed"}).Draw(rt, "form")
	jo := model.JSONOpts{Prefix: form == "json_ietf_prefixed"}
	if f.Kind == model.FLeafList {
		if form == "scalar" {
			return model.LeafListTV(many), form
		}
		arr := make([]interface{}, len(many))
		for i, x := range many {
			arr[i] = model.RenderValue(x, jo)
		}
		return model.JSONIETFTV(mustJSON(arr)), form
	}
	if form == "scalar" {
		return model.ScalarTV(one), form
	}
	return model.JSONIETFTV(mustJSON(model.RenderValue(one, jo))), form
}

func mustJSON(v interface{}) []byte {
	b, err := model.MarshalJSON(v)
	if err != nil {
		panic(err)
	}
	return b
}

// nodeData renders the Data of a TreeNode for leaf field f in the model's canonical value text.
func nodeData(v *model.Variant, f *model.FieldInfo, data interface{}) string {
	rv := reflect.ValueOf(data)
	if f.Kind == model.FLeafList {
		if rv.Kind() != reflect.Slice {
			return fmt.Sprintf("<not a slice: %T>", data)
		}
		p := make([]string, rv.Len())
		for i := range p {
			x, _ := model.ObserveValue(v, f.Type, rv.Index(i))
			p[i] = x.LooseCanon()
		}
		return "[" + strings.Join(p, " ") + "]"
	}
	x, ok := model.ObserveValue(v, f.Type, rv)
	if !ok {
		return "<unset>"
	}
	return x.LooseCanon()
}

// C10: SetNode then GetNode returns the value set, and nothing else changes (DESIGN.md 5/C10).
func TestC10(t *testing.T) {
	rec := ev.Start(t, "C10")
	rec.Rule("histories of <=8 SetNode calls (InitMissingElements) on a generated tree: target = any leaf or leaf-list path, through existing or new list entries of every key type; payload = type-correct scalar TypedValue / leaflist_val or JSON_IETF scalar (with and without module prefixes); " +
		"oracle: on success GetNode returns exactly one node holding the value in the leaf's Go type and the observed tree equals model + {p -> v} + key leaves of created entries; " +
		"non-trivial = the history creates a list entry or writes a union / leaf-list value; distinct by variant+tree+history")
	rec.Assume("shadow paths are outside the domain (documented: silently ignored); a key leaf is only written with the value its entry's path carries; union values are canonical")
	th.WitnessAll(rec)
	rapid.Check(t, func(rt *rapid.T) {
		v := th.PickVariant(rt, th.AllVariants...)
		o := model.GenOpts{Sparse: rapid.Bool().Draw(rt, "sparse")}
		th.SteerAway(rec, &o)
		m := model.GenTree(rt, v, o)
		// one tree in four is built the way a caller who reuses values builds it: equal scalar leaves of one
		// Go type share a single variable; the library must not write through such a pointer
		root := model.Build(m)
		if rapid.IntRange(0, 3).Draw(rt, "sharedleaves") == 0 {
			root = model.BuildShared(m)
		}
		rs := v.Schema().SchemaTree[reflect.TypeOf(root).Elem().Name()]
		steps := rapid.IntRange(1, 8).Draw(rt, "steps")
		var hist []string
		nt := false
		var cl []string
		for i := 0; i < steps; i++ {
			tg := model.PickTarget(rt, v, m, model.TargetOpts{Leaf: true, AllowOrdered: true, Gen: o})
			if tg == nil {
				continue
			}
			f := tg.F
			var one model.Val
			var many []model.Val
			if f.IsKey {
				one = tg.Keys[len(tg.Keys)-1][keyIndex(tg.Via[len(tg.Via)-2], f)]
			} else if f.Kind == model.FLeafList {
				n := rapid.IntRange(1, 3).Draw(rt, "ll#")
				// now and then the empty JSON array: it replaces the leaf-list by nothing
				if tg.Exists && rapid.IntRange(0, 3).Draw(rt, "emptyarray") == 0 {
					n = 0
				}
				seen := map[string]bool{}
				for len(many) < n {
					x := model.GenVal(rt, v, f.Type, o, "val")
					if seen[x.LooseCanon()] {
						n--
						continue
					}
					seen[x.LooseCanon()] = true
					many = append(many, x)
				}
			} else {
				one = model.GenVal(rt, v, f.Type, o, "val")
			}
			tv, form := payload(rt, f, one, many)
			if f.Kind == model.FLeafList && len(many) == 0 {
				tv, form = model.JSONIETFTV([]byte("[]")), "json_ietf_empty_array"
			}
			p := model.PathProto(tg.Elems)
			step := fmt.Sprintf("SetNode(%s, %s) [%s]", model.PathString(p), strings.TrimSpace(tv.String()), form)
			hist = append(hist, step)
			cl = append(cl, "form:"+form, "target:"+f.Kind.String())
			if tg.Creates {
				cl = append(cl, "target:creates")
			}
			if tg.Creates && len(tg.Keys) > 0 || f.ElemUnion || f.Kind == model.FLeafList {
				nt = true
			}
			if f.ElemUnion {
				cl = append(cl, "target:union")
			}
			for _, k := range tg.Keys {
				for _, kv := range k {
					cl = append(cl, "pathkey:"+kv.K.String())
				}
			}
			err := ytypes.SetNode(rs, root, p, tv, &ytypes.InitMissingElements{})
			desc := func() string {
				return fmt.Sprintf("variant %s\nhistory:\n  %s\nmodel before the last step:\n%s", v.Name, strings.Join(hist, "\n  "), m.Dump())
			}
			if err != nil {
				// the statement is conditional on success; type-correct sets that fail are counted
				if rec.Excuse(th.F28, th.IsF28(v, valTree(v, f, one, many), err)) {
					rec.Class("set:failed-known")
					return
				}
				rec.Class("set:failed")
				rec.Add("failed_sets", 1)
				if rec.WantSample() {
					rec.Sample(map[string]string{"failed_set": step, "error": th.Trunc(err.Error(), 300)})
				}
				return
			}
			rec.Class("set:ok")
			rec.Add("ok_sets", 1)
			// model update
			owner := model.Ensure(m, tg)
			want := ""
			if f.Kind == model.FLeafList && len(many) == 0 {
				// an empty leaf-list and an absent one are the same thing in YANG: GetNode may find
				// nothing, or an empty slice, but none of the previous members
				delete(owner.LL, f.Name)
				nodes, gerr := ytypes.GetNode(rs, root, p)
				for _, nd := range nodes {
					if rv := reflect.ValueOf(nd.Data); gerr == nil && rv.IsValid() && rv.Kind() == reflect.Slice && rv.Len() > 0 {
						rt.Fatalf("GetNode(%s) after SetNode with the empty JSON array still holds %s\n%s", model.PathString(p), nodeData(v, f, nd.Data), desc())
					}
				}
				got := model.ObserveNorm(v, root)
				if d := model.Diff(m.Clone().Normalize(), got, model.DiffOpts{LooseEnum: true}); len(d) > 0 {
					rt.Fatalf("after %s the tree differs from model + write:\n  %s\n%s", step, th.JoinDiff(d), desc())
				}
				continue
			}
			if f.Kind == model.FLeafList {
				owner.LL[f.Name] = many
				want = "[" + joinCanon(many) + "]"
			} else {
				owner.Leaf[f.Name] = one
				want = one.LooseCanon()
			}
			// GetNode
			nodes, gerr := ytypes.GetNode(rs, root, p)
			if gerr != nil {
				rt.Fatalf("GetNode(%s) after a successful SetNode failed: %v\n%s", model.PathString(p), gerr, desc())
			}
			if len(nodes) != 1 {
				rt.Fatalf("GetNode(%s) returned %d nodes, want 1\n%s", model.PathString(p), len(nodes), desc())
			}
			if got := nodeData(v, f, nodes[0].Data); got != want {
				rt.Fatalf("GetNode(%s) holds %s, want %s\n%s", model.PathString(p), got, want, desc())
			}
			got := model.ObserveNorm(v, root)
			if d := model.Diff(m.Clone().Normalize(), got, model.DiffOpts{LooseEnum: true}); len(d) > 0 {
				rt.Fatalf("after %s the tree differs from model + write:\n  %s\n%s", step, th.JoinDiff(d), desc())
			}
		}
		rec.Case(v.Name+"|"+m.Dump()+"|"+strings.Join(hist, ";"), nt, append(cl, "variant:"+v.Name)...)
		if rec.WantSample() {
			rec.Sample(map[string]interface{}{"variant": v.Name, "history": hist})
		}
	})
}

func keyIndex(list *model.FieldInfo, kf *model.FieldInfo) int {
	for i, x := range list.KeyFields {
		if x == kf {
			return i
		}
	}
	return 0
}

func joinCanon(l []model.Val) string {
	p := make([]string, len(l))
	for i, x := range l {
		p[i] = x.LooseCanon()
	}
	return strings.Join(p, " ")
}

// valTree wraps written values into a one-leaf tree so that tree predicates (th.IsF28) apply.
func valTree(v *model.Variant, f *model.FieldInfo, one model.Val, many []model.Val) *model.Node {
	n := model.NewNode(f.Owner)
	if f.Kind == model.FLeafList {
		n.LL[f.Name] = many
	} else {
		n.Leaf[f.Name] = one
	}
	return n
}
