package tree

import (
	"fmt"
	"strings"
	"testing"

	gpb "github.com/openconfig/gnmi/proto/gnmi"
	"github.com/openconfig/ygot/ytypes"
	"google.golang.org/protobuf/encoding/prototext"
	"pgregory.net/rapid"
	"verifharness/ev"
	"verifharness/model"
	"verifharness/th"
)

// mergeModel merges src into dst the way a gNMI update / RFC 7951 document is merged: leaves
// overwritten, leaf-lists replaced, containers merged, keyed entries merged by key (new ones appended).
func mergeModel(dst, src *model.Node) {
	for _, f := range src.SI.Fields {
		switch f.Kind {
		case model.FLeaf:
			if v, ok := src.Leaf[f.Name]; ok {
				dst.Leaf[f.Name] = v
			}
		case model.FLeafList:
			if l := src.LL[f.Name]; len(l) > 0 {
				dst.LL[f.Name] = l
			}
		case model.FCont:
			if c, ok := src.Cont[f.Name]; ok {
				d := dst.Cont[f.Name]
				if d == nil {
					d = model.NewNode(f.Child)
					dst.Cont[f.Name] = d
				}
				mergeModel(d, c)
			}
		case model.FList, model.FOrdList:
			for _, e := range src.List[f.Name] {
				var hit *model.Entry
				for _, x := range dst.List[f.Name] {
					if model.KeyLoose(x.Key) == model.KeyLoose(e.Key) {
						hit = x
					}
				}
				if hit == nil {
					hit = &model.Entry{Key: e.Key, N: model.NewNode(f.Child)}
					dst.List[f.Name] = append(dst.List[f.Name], hit)
				}
				mergeModel(hit.N, e.N)
			}
		case model.FUList:
			dst.UList[f.Name] = append(dst.UList[f.Name], src.UList[f.Name]...)
		}
	}
}

// hasOrdered reports a populated ordered list anywhere below n.
func hasOrdered(n *model.Node) bool {
	if n == nil {
		return false
	}
	return n.AnyField(func(_ *model.Node, f *model.FieldInfo) bool { return f.Kind == model.FOrdList })
}

type setOp struct {
	kind  string // delete | replace | update
	tg    *model.Target
	one   model.Val
	many  []model.Val
	sub   *model.Node // JSON payload model (container / entry / root targets)
	arr   []*model.Entry
	tv    *gpb.TypedValue
	descr string
	// ghost: an update whose path runs through the (existing) target and then names a node the schema does
	// not have; only generated together with the IgnoreExtraFields option, under which it has no effect
	ghost bool
}

// applyOp applies one operation to the model (reference semantics).
func applyOp(m *model.Node, op *setOp) {
	if op.ghost {
		return
	}
	tg := op.tg
	if op.kind == "delete" || op.kind == "replace" {
		if tg.F == nil {
			*m = *model.NewNode(m.SI)
		} else {
			refDelete(m, tg)
		}
		if op.kind == "delete" {
			return
		}
	}
	if tg.F == nil {
		mergeModel(m, op.sub)
		return
	}
	owner := model.Ensure(m, tg)
	f := tg.F
	switch {
	case f.Kind == model.FLeaf:
		owner.Leaf[f.Name] = op.one
	case f.Kind == model.FLeafList:
		owner.LL[f.Name] = op.many
	case f.Kind == model.FCont:
		mergeModel(owner, op.sub) // Ensure returned the container node itself
	case tg.AtEntry:
		mergeModel(owner, op.sub)
	default: // whole list with an array payload
		wrap := model.NewNode(owner.SI)
		wrap.List[f.Name] = op.arr
		mergeModel(owner, wrap)
	}
}

// elemsPrefix: path a is an ancestor of (or equal to) path b; an element of a without keys (a whole list)
// covers every entry.
func elemsPrefix(a, b []model.PElem) bool {
	if len(a) > len(b) {
		return false
	}
	for i := range a {
		if a[i].Name != b[i].Name {
			return false
		}
		if a[i].Keys != nil && model.ElemsID(a[i:i+1]) != model.ElemsID(b[i:i+1]) {
			return false
		}
	}
	return true
}

func reqText(r *gpb.SetRequest) string {
	return th.Trunc(prototext.MarshalOptions{Multiline: true}.Format(r), 4000)
}

// C13: UnmarshalSetRequest implements gNMI Set semantics (DESIGN.md 5/C13).
func TestC13(t *testing.T) {
	rec := ev.Start(t, "C13")
	rec.Rule("histories of <=5 SetRequests (and atomic Notifications) on a generated tree: deletes, replaces and updates at leaf / leaf-list / container / list-entry / whole-list / root targets, existing or new, with a random prefix split; payloads are scalar TypedValues or JSON_IETF documents rendered by the harness from freshly drawn sub-models; " +
		"oracle: reference gNMI Set semantics on the model (prefix joined; all deletes, then replaces = delete + write, then updates = merge, in message order); after every request the leaf set and ordered-list order of schema.Root equal the model; " +
		"non-trivial = a request mixes a replace and an update on overlapping subtrees, or replaces a list entry; distinct by variant+tree+requests")
	rec.Assume("presence-container bits are not compared (C12 owns pruning); key leaves are not deleted on their own; a JSON payload for a list-entry target repeats the path keys or omits them; a JSON update does not mention an ordered-by-user list that is already populated (documented: ordered lists are unmarshalled as a whole) nor unkeyed lists")
	th.WitnessAll(rec)
	witnessF97(rec)
	rapid.Check(t, func(rt *rapid.T) {
		v := th.PickVariant(rt, th.AllVariants...)
		o := model.GenOpts{Sparse: rapid.Bool().Draw(rt, "sparse"), NoUnkeyed: true}
		th.SteerAway(rec, &o)
		m := model.GenTree(rt, v, o)
		// one tree in four is built the way a caller who reuses values builds it: equal scalar leaves of one
		// Go type share a single variable; the library must not write through such a pointer
		root := model.Build(m)
		if rapid.IntRange(0, 3).Draw(rt, "sharedleaves") == 0 {
			root = model.BuildShared(m)
		}
		sch := &ytypes.Schema{Root: root, SchemaTree: v.Schema().SchemaTree, Unmarshal: v.Schema().Unmarshal}
		nreq := rapid.IntRange(1, 5).Draw(rt, "requests")
		var hist, cl []string
		nt := false
		for ri := 0; ri < nreq; ri++ {
			before := m.Clone()
			atomic := rapid.IntRange(0, 9).Draw(rt, "atomic") == 0
			nops := rapid.IntRange(1, 4).Draw(rt, "ops")
			var ops []*setOp
			for len(ops) < nops {
				op := genOp(rt, v, m, o, atomic)
				if op == nil {
					nops--
					continue
				}
				ops = append(ops, op)
			}
			if len(ops) == 0 {
				continue
			}
			// one request in four is applied with IgnoreExtraFields and carries one or two updates that name a
			// node the schema does not have below an existing container or list entry: they change nothing
			var sopts []ytypes.UnmarshalOpt
			if !atomic && rapid.IntRange(0, 3).Draw(rt, "ignoreextra") == 0 {
				sopts = append(sopts, &ytypes.IgnoreExtraFields{})
				cl = append(cl, "opt:ignore-extra-fields")
				for g := rapid.IntRange(1, 2).Draw(rt, "ghosts"); g > 0; g-- {
					tg := model.PickTarget(rt, v, before, model.TargetOpts{NoKeyLeaf: true, AllowOrdered: true, Gen: o})
					if tg == nil || tg.F == nil || !tg.Exists || !(tg.F.Kind == model.FCont || tg.AtEntry) {
						continue
					}
					// the node must still exist when the updates run (after this request's deletes and replaces)
					gone := false
					for _, op := range ops {
						if op.kind != "update" && (op.tg.F == nil || elemsPrefix(op.tg.Elems, tg.Elems) || elemsPrefix(tg.Elems, op.tg.Elems)) {
							gone = true
						}
					}
					if gone {
						continue
					}
					gop := &setOp{kind: "update", tg: tg, ghost: true, tv: &gpb.TypedValue{Value: &gpb.TypedValue_StringVal{StringVal: "ignored"}}}
					gop.descr = "update (unknown node below) " + model.PathString(model.PathProto(tg.Elems))
					pos := rapid.IntRange(0, len(ops)).Draw(rt, "ghostpos")
					ops = append(ops[:pos], append([]*setOp{gop}, ops[pos:]...)...)
					cl = append(cl, "op:update-unknown-node")
				}
			}
			req, prefixLen := buildRequest(rt, v, atomic, ops)
			if atomic {
				// reference: the subtree at the prefix is replaced
				if prefixLen == 0 {
					*m = *model.NewNode(m.SI)
				} else {
					r, rerr := v.ResolvePath(req.Prefix)
					if rerr != nil {
						rt.Fatalf("HARNESS-BUG: prefix does not resolve: %v", rerr)
					}
					refDelete(m, &model.Target{Elems: r.Elems, Via: r.Fields, Keys: r.Keys, F: r.Last, AtEntry: r.AtEntry})
				}
			}
			// reference: deletes, then replaces, then updates, each in message order
			for _, k := range []string{"delete", "replace", "update"} {
				for _, op := range ops {
					if op.kind == k {
						applyOp(m, op)
					}
				}
			}
			var err error
			var text string
			if atomic {
				// an atomic notification replaces the subtree at its prefix
				n := &gpb.Notification{Atomic: true, Prefix: req.Prefix, Update: req.Update, Delete: req.Delete}
				text = "atomic notification: " + th.Trunc(prototext.MarshalOptions{Multiline: true}.Format(n), 4000)
				err = ytypes.UnmarshalNotifications(sch, []*gpb.Notification{n})
			} else {
				text = reqText(req)
				err = ytypes.UnmarshalSetRequest(sch, req, sopts...)
			}
			var kinds []string
			for _, op := range ops {
				kinds = append(kinds, op.descr)
				cl = append(cl, "op:"+op.kind+":"+opTargetKind(op.tg))
			}
			hist = append(hist, fmt.Sprintf("request %d (prefix %d elems): %s", ri, prefixLen, strings.Join(kinds, "; ")))
			if hasKinds(ops, "replace") && hasKinds(ops, "update") && overlapping(ops) {
				nt = true
				cl = append(cl, "req:replace+update-overlap")
			}
			for _, op := range ops {
				if op.kind == "replace" && op.tg.F != nil && op.tg.AtEntry {
					nt = true
					cl = append(cl, "req:replace-entry")
				}
			}
			desc := func() string {
				return fmt.Sprintf("variant %s\nhistory:\n  %s\ntree before the last request:\n%s\nlast request:\n%s", v.Name, strings.Join(hist, "\n  "), before.Dump(), text)
			}
			if err != nil {
				payloadTree := model.NewNode(v.Root)
				for _, op := range ops {
					if op.sub != nil && th.UnionBinary(op.sub) || op.tg.F != nil && op.tg.F.ElemUnion && (op.one.K == model.KBin || anyBin(op.many)) {
						payloadTree = binTree(v)
					}
				}
				if rec.Excuse(th.F28, th.IsF28(v, payloadTree, err)) {
					rec.Class("request:failed-known")
					return
				}
				rt.Fatalf("request rejected: %v\n%s", err, desc())
			}
			rec.Add("ok_requests", 1)
			got := model.ObserveNorm(v, root)
			if got.DupListKeys() {
				// two entries with one key: which of them a later request (and this comparison) reaches
				// depends on map iteration order, so the history stops here whether or not a leaf differs yet
				if v.Wrapper && rec.Excuse(th.F33, hasUnionKeyedPayload(ops)) {
					return
				}
				rt.Fatalf("after request %d a keyed list holds two entries with the same key:\n%s\nobserved:\n%s", ri, desc(), got.Dump())
			}
			if d := leafSetDiff(m, got, true); len(d) > 0 {
				if v.Wrapper && rec.Active(th.F33) {
					// known: duplicate entries in union-keyed lists; every difference must lie below one
					all := true
					for _, x := range d {
						if !underUnionKeyedList(v, x) {
							all = false
						}
					}
					if rec.Excuse(th.F33, all && hasUnionKeyedPayload(ops)) {
						return
					}
				}
				rt.Fatalf("after request %d the tree differs from the reference semantics:\n  %s\n%s\nreference after:\n%s", ri, th.JoinDiff(d), desc(), m.Dump())
			}
			if atomic {
				cl = append(cl, "req:atomic-notification")
			}
		}
		rec.Case(v.Name+"|"+m.Dump()+"|"+strings.Join(hist, ";"), nt, append(cl, "variant:"+v.Name)...)
		if rec.WantSample() {
			rec.Sample(map[string]interface{}{"variant": v.Name, "history": hist})
		}
	})
}

// hasUnionKeyedPayload: some operation carries a JSON document that mentions an entry of a union-keyed list.
func hasUnionKeyedPayload(ops []*setOp) bool {
	for _, op := range ops {
		if op.sub != nil && th.UnionKeyed(op.sub) {
			return true
		}
	}
	return false
}

func anyBin(l []model.Val) bool {
	for _, x := range l {
		if x.K == model.KBin {
			return true
		}
	}
	return false
}

// binTree is a tree that satisfies th.UnionBinary (used to attribute F28 to scalar payloads).
func binTree(v *model.Variant) *model.Node {
	n := model.NewNode(v.Root)
	var walk func(si *model.StructInfo, n *model.Node) bool
	walk = func(si *model.StructInfo, n *model.Node) bool {
		for _, f := range si.Fields {
			if f.Kind == model.FLeaf && f.ElemUnion {
				n.Leaf[f.Name] = model.Val{K: model.KBin, B: []byte{1}}
				return true
			}
		}
		for _, f := range si.Fields {
			if f.Kind == model.FCont {
				c := model.NewNode(f.Child)
				if walk(f.Child, c) {
					n.Cont[f.Name] = c
					return true
				}
			}
		}
		return false
	}
	walk(v.Root, n)
	return n
}

func hasKinds(ops []*setOp, k string) bool {
	for _, op := range ops {
		if op.kind == k {
			return true
		}
	}
	return false
}

func overlapping(ops []*setOp) bool {
	for i, a := range ops {
		for j, b := range ops {
			if i == j || a.kind == b.kind {
				continue
			}
			pa, pb := model.ElemsID(a.tg.Elems), model.ElemsID(b.tg.Elems)
			if strings.HasPrefix(pa, pb) || strings.HasPrefix(pb, pa) {
				return true
			}
		}
	}
	return false
}

func opTargetKind(tg *model.Target) string {
	if tg.F == nil {
		return "root"
	}
	return targetKind(tg)
}

// genOp draws one operation against the current model.
func genOp(rt *rapid.T, v *model.Variant, m *model.Node, o model.GenOpts, atomic bool) *setOp {
	kind := rapid.SampledFrom([]string{"delete", "replace", "update", "update"}).Draw(rt, "opkind")
	if atomic {
		kind = "update"
	}
	op := &setOp{kind: kind}
	if kind != "delete" && !atomic && rapid.IntRange(0, 19).Draw(rt, "atroot") == 0 {
		op.tg = &model.Target{Exists: true}
	} else {
		op.tg = model.PickTarget(rt, v, m, model.TargetOpts{NoKeyLeaf: true, AllowOrdered: true, AllowWholeList: !atomic, Leaf: atomic, Gen: o})
	}
	tg := op.tg
	if tg == nil {
		return nil
	}
	p := model.PathString(model.PathProto(tg.Elems))
	if kind == "delete" {
		if tg.F == nil {
			return nil
		}
		op.descr = "delete " + p
		return op
	}
	jo := model.JSONOpts{Prefix: rapid.Bool().Draw(rt, "jsonprefix"), AllAlts: true}
	po := o
	po.Sparse, po.NoUnkeyed = true, true
	f := tg.F
	switch {
	case f == nil: // root document
		po.NoOrdered = kind == "update" // an earlier replace of the same request may have populated ordered lists
		op.sub = model.GenTree(rt, v, po)
		op.tv = model.JSONIETFTV(model.RenderJSON(op.sub, jo))
	case f.Kind == model.FLeaf:
		op.one = model.GenVal(rt, v, f.Type, o, "val")
		op.tv, _ = payload(rt, f, op.one, nil)
	case f.Kind == model.FLeafList:
		n := rapid.IntRange(1, 3).Draw(rt, "ll#")
		seen := map[string]bool{}
		for tries := 0; len(op.many) < n && tries < 12; tries++ {
			x := model.GenVal(rt, v, f.Type, o, "val")
			if !seen[x.LooseCanon()] {
				seen[x.LooseCanon()] = true
				op.many = append(op.many, x)
			}
		}
		op.tv, _ = payload(rt, f, model.Val{}, op.many)
	case f.Kind == model.FCont || tg.AtEntry:
		cur, _, _ := model.Find(m, tg)
		po.NoOrdered = kind == "update"
		if f.Kind == model.FOrdList && kind == "update" {
			return nil
		}
		op.sub = model.GenNode(rt, f.Child, po)
		if tg.AtEntry {
			key := tg.Keys[len(tg.Keys)-1]
			withKeys := rapid.Bool().Draw(rt, "payloadkeys")
			for i, kf := range f.KeyFields {
				if withKeys {
					op.sub.Leaf[kf.Name] = key[i]
				} else {
					delete(op.sub.Leaf, kf.Name)
				}
			}
			if withKeys {
				model.AlignKeyTargets(f, op.sub, key)
			}
		}
		op.tv = model.JSONIETFTV(model.RenderJSON(op.sub, jo))
		if !tg.AtEntry {
			_ = cur
		} else {
			// the entry's key leaves come from the path in any case
			key := tg.Keys[len(tg.Keys)-1]
			for i, kf := range f.KeyFields {
				op.sub.Leaf[kf.Name] = key[i]
			}
		}
	default: // whole list: JSON array of entries
		// Not in the property's domain (it names leaf, container, list-entry and ordered-list
		// targets) and not supported: ygot answers `missing "name" key` for a keyless list path
		// with a payload. Whole-list paths are only used for deletes.
		if true {
			return nil
		}
		if kind == "update" && f.Kind == model.FOrdList {
			return nil
		}
		cur, _, _ := model.Find(m, tg)
		if kind == "update" && cur != nil && f.Kind == model.FOrdList && len(cur.List[f.Name]) > 0 {
			return nil
		}
		n := rapid.IntRange(1, 2).Draw(rt, "arr#")
		var arr []interface{}
		for i := 0; i < n; i++ {
			e := model.GenEntry(rt, f, po, op.arr)
			if e == nil {
				break
			}
			op.arr = append(op.arr, e)
			arr = append(arr, model.RenderObject(e.N, jo))
		}
		if len(op.arr) == 0 {
			return nil
		}
		op.tv = model.JSONIETFTV(mustJSON(arr))
	}
	op.descr = fmt.Sprintf("%s %s = %s", kind, p, th.Trunc(strings.TrimSpace(op.tv.String()), 300))
	return op
}

// buildRequest assembles the SetRequest with a random shared prefix split.
func buildRequest(rt *rapid.T, v *model.Variant, atomic bool, ops []*setOp) (*gpb.SetRequest, int) {
	// common prefix of all targets
	common := ops[0].tg.Elems
	for _, op := range ops[1:] {
		n := 0
		for n < len(common) && n < len(op.tg.Elems) && model.ElemsID(common[:n+1]) == model.ElemsID(op.tg.Elems[:n+1]) {
			n++
		}
		common = common[:n]
	}
	k := rapid.IntRange(0, len(common)).Draw(rt, "prefixlen")
	if atomic {
		// the prefix of an atomic notification names the subtree that is replaced: it has to be a
		// node of the GoStruct tree (container or list entry), not a compressed-out element
		for ; k > 0; k-- {
			r, err := v.ResolvePath(model.PathProto(common[:k]))
			if err == nil && (r.Last.Kind == model.FCont || r.AtEntry) {
				break
			}
		}
	}
	req := &gpb.SetRequest{}
	if k > 0 || rapid.Bool().Draw(rt, "emptyprefix") {
		req.Prefix = model.PathProto(common[:k])
	}
	if req.Prefix != nil && rapid.Bool().Draw(rt, "prefixcap") {
		// a prefix as a decoder or an append-built path leaves it: element slice with spare capacity, which a
		// join that appends in place would hand to every joined path
		req.Prefix.Elem = append(make([]*gpb.PathElem, 0, len(req.Prefix.Elem)+4), req.Prefix.Elem...)
	}
	for _, op := range ops {
		p := model.PathProto(op.tg.Elems[k:])
		if op.ghost {
			p.Elem = append(p.Elem, &gpb.PathElem{Name: "zz-not-in-schema"})
			if rapid.Bool().Draw(rt, "ghostdeep") {
				p.Elem = append(p.Elem, &gpb.PathElem{Name: "leaf"})
			}
		}
		switch op.kind {
		case "delete":
			req.Delete = append(req.Delete, p)
		case "replace":
			req.Replace = append(req.Replace, &gpb.Update{Path: p, Val: op.tv})
		case "update":
			req.Update = append(req.Update, &gpb.Update{Path: p, Val: op.tv})
		}
	}
	return req, k
}

// underUnionKeyedList says whether a leafSetDiff line names a path below a list keyed by a union.
func underUnionKeyedList(v *model.Variant, line string) bool {
	for _, si := range v.Structs {
		for _, f := range si.Fields {
			if f.Kind != model.FList && f.Kind != model.FOrdList {
				continue
			}
			for _, kf := range f.KeyFields {
				if kf.ElemUnion && strings.Contains(line, "/"+f.Paths[0][len(f.Paths[0])-1]+"[") {
					return true
				}
			}
		}
	}
	return false
}
