package tree

import (
	"fmt"
	"reflect"
	"strings"
	"testing"

	gpb "github.com/openconfig/gnmi/proto/gnmi"
	"github.com/openconfig/ygot/ygot"
	"github.com/openconfig/ygot/ytypes"
	"pgregory.net/rapid"
	"verifharness/ev"
	"verifharness/model"
	"verifharness/th"
)

// listSite is a keyed list of the schema with the chain of fields leading to it.
type listSite struct {
	via []*model.FieldInfo
}

func listSites(v *model.Variant) []listSite {
	var out []listSite
	var walk func(si *model.StructInfo, via []*model.FieldInfo, depth int)
	walk = func(si *model.StructInfo, via []*model.FieldInfo, depth int) {
		if depth > 8 {
			return
		}
		for _, f := range si.Fields {
			nv := append(append([]*model.FieldInfo(nil), via...), f)
			switch f.Kind {
			case model.FCont:
				walk(f.Child, nv, depth+1)
			case model.FList, model.FOrdList:
				out = append(out, listSite{via: nv})
				walk(f.Child, nv, depth+1)
			}
		}
	}
	walk(v.Root, nil, 0)
	return out
}

// entryPathFrom extracts, from a notification path, the prefix that ends at list element `depth`
// (index into elems) if the element's keys decode to key.
func keysMatch(f *model.FieldInfo, el *gpb.PathElem, key []model.Val) bool {
	if len(el.Key) != len(f.KeyNames) {
		return false
	}
	for i, kn := range f.KeyNames {
		s, ok := el.Key[kn]
		if !ok {
			return false
		}
		kv, err := model.ParseKey(f.KeyFields[i].Type, s)
		if err != nil || kv.LooseCanon() != key[i].LooseCanon() {
			return false
		}
	}
	return true
}

// C16: list keys of every supported type round-trip through gNMI paths (DESIGN.md 5/C16).
func TestC16(t *testing.T) {
	rec := ev.Start(t, "C16")
	rec.Rule("for every keyed list of every variant (one per key type incl. unions, leafref keys, multi-key, nested): 1-3 entries with keys drawn over the whole value space of the key types; " +
		"the key strings ygot itself produces (TogNMINotifications, Diff, ΛListKeyMap + KeyValueAsString) must address the same entry again: GetNode returns exactly that entry, DeleteNode removes exactly it, and SetNode(entry path + leaf, InitMissingElements) on an empty tree creates an entry whose map key and key leaves equal the original key; " +
		"non-trivial = some key is not a plain lower-case ASCII string; distinct by variant+list+keys")
	th.WitnessAll(rec)
	rapid.Check(t, func(rt *rapid.T) {
		v := th.PickVariant(rt, th.AllVariants...)
		sites := listSites(v)
		ls := sites[rapid.IntRange(0, len(sites)-1).Draw(rt, "list")]
		o := model.GenOpts{}
		th.SteerAway(rec, &o)
		// build the chain
		m := model.NewNode(v.Root)
		cur := m
		var base []model.PElem
		var lf *model.FieldInfo
		for i, f := range ls.via {
			last := i == len(ls.via)-1
			switch f.Kind {
			case model.FCont:
				c := model.NewNode(f.Child)
				cur.Cont[f.Name] = c
				cur = c
				base = append(base, pelems(f.Paths[0])...)
			case model.FList, model.FOrdList:
				if last {
					lf = f
					break
				}
				e := model.GenEntry(rt, f, model.GenOpts{Skip: func(*model.FieldInfo) bool { return true }, Avoid: o.Avoid}, nil)
				if e == nil {
					return
				}
				cur.List[f.Name] = []*model.Entry{e}
				cur = e.N
				base = model.EntryElems(base, f, 0, e.Key)
			}
		}
		n := rapid.IntRange(1, 3).Draw(rt, "entries")
		var ents []*model.Entry
		// a non-key leaf to carry data
		var dataLeaf *model.FieldInfo
		for _, cf := range lf.Child.Fields {
			if cf.Kind == model.FLeaf && !cf.IsKey && cf.Type.Leafref == "" && !cf.ElemUnion {
				dataLeaf = cf
				break
			}
		}
		for i := 0; i < n; i++ {
			e := model.GenEntry(rt, lf, model.GenOpts{Skip: func(*model.FieldInfo) bool { return true }, Avoid: o.Avoid}, ents)
			if e == nil {
				break
			}
			if dataLeaf != nil {
				e.N.Leaf[dataLeaf.Name] = model.GenVal(rt, v, dataLeaf.Type, o, "data")
			}
			ents = append(ents, e)
		}
		if len(ents) == 0 {
			return
		}
		cur.List[lf.Name] = ents
		owner := cur
		nt := false
		var cl []string
		for _, e := range ents {
			for _, k := range e.Key {
				cl = append(cl, "key:"+k.K.String())
				if k.K != model.KStr || strings.Trim(k.S, "abcdefghijklmnopqrstuvwxyz") != "" {
					nt = true
				}
				if k.K == model.KStr && strings.ContainsAny(k.S, "/[]=\\ ") {
					cl = append(cl, "key:special-chars")
				}
			}
		}
		if len(lf.KeyFields) > 1 {
			cl = append(cl, "list:multi-key")
		}
		listName := v.Name + ":" + model.ElemsID(base) + "/" + lf.SchemaPath()
		rec.Case(listName+"|"+m.Dump(), nt, append(cl, "variant:"+v.Name, "list:"+lf.Kind.String())...)
		if rec.WantSample() {
			rec.Sample(map[string]string{"list": listName, "tree": th.Trunc(m.Dump(), 800)})
		}
		desc := func() string { return fmt.Sprintf("list %s\ntree:\n%s", listName, m.Dump()) }

		root := model.Build(m)
		rs := v.Schema().SchemaTree[reflect.TypeOf(root).Elem().Name()]
		depth := len(base) + len(lf.Paths[0]) - 1 // index of the list element in absolute paths

		// ---- collect ygot's key strings per entry and source ----
		type src struct {
			name string
			el   *gpb.PathElem
		}
		found := make([][]src, len(ents))
		collect := func(name string, paths []*gpb.Path) {
			for _, p := range paths {
				if len(p.Elem) <= depth || p.Elem[depth].Name != lf.Paths[0][len(lf.Paths[0])-1] {
					continue
				}
				for i, e := range ents {
					if keysMatch(lf, p.Elem[depth], e.Key) {
						dup := false
						for _, s := range found[i] {
							if s.name == name && fmt.Sprint(s.el.Key) == fmt.Sprint(p.Elem[depth].Key) {
								dup = true
							}
						}
						if !dup {
							found[i] = append(found[i], src{name, p.Elem[depth]})
						}
					}
				}
			}
		}
		ns, err := ygot.TogNMINotifications(root, 1, ygot.GNMINotificationsConfig{UsePathElem: true})
		if err != nil {
			rt.Fatalf("TogNMINotifications failed: %v\n%s", err, desc())
		}
		var paths []*gpb.Path
		for _, n := range ns {
			for _, u := range n.Update {
				paths = append(paths, joinPath(n.Prefix, u.Path))
			}
		}
		collect("TogNMINotifications", paths)
		dn, err := ygot.Diff(v.NewRoot(), root)
		if err != nil {
			rt.Fatalf("Diff failed: %v\n%s", err, desc())
		}
		paths = nil
		for _, u := range dn.Update {
			paths = append(paths, joinPath(dn.Prefix, u.Path))
		}
		collect("Diff", paths)
		// ΛListKeyMap + KeyValueAsString on the built entries
		for i, e := range ents {
			ev := entryValue(root, ls.via, m, e)
			if !ev.IsValid() {
				rt.Fatalf("HARNESS-BUG: entry not found in the built tree\n%s", desc())
			}
			km, err := ev.Interface().(ygot.KeyHelperGoStruct).ΛListKeyMap()
			if err != nil {
				rt.Fatalf("ΛListKeyMap failed: %v\n%s", err, desc())
			}
			el := &gpb.PathElem{Name: lf.Paths[0][len(lf.Paths[0])-1], Key: map[string]string{}}
			for kn, kv := range km {
				s, err := ygot.KeyValueAsString(kv)
				if err != nil {
					rt.Fatalf("KeyValueAsString(%v) failed: %v\n%s", kv, err, desc())
				}
				el.Key[kn] = s
			}
			found[i] = append(found[i], src{"ΛListKeyMap+KeyValueAsString", el})
		}
		for i, e := range ents {
			names := map[string]bool{}
			for _, s := range found[i] {
				names[s.name] = true
			}
			if !names["TogNMINotifications"] || !names["Diff"] {
				rt.Fatalf("no path of TogNMINotifications / Diff addresses entry %s (found %v)\n%s", model.KeyCanon(e.Key), names, desc())
			}
		}

		// ---- every string form addresses the same entry ----
		for i, e := range ents {
			for _, s := range found[i] {
				p := model.PathProto(base)
				for _, x := range lf.Paths[0][:len(lf.Paths[0])-1] {
					p.Elem = append(p.Elem, &gpb.PathElem{Name: x})
				}
				p.Elem = append(p.Elem, s.el)
				what := fmt.Sprintf("%s (key strings from %s) for entry %s", model.PathString(p), s.name, model.KeyCanon(e.Key))
				// GetNode
				nodes, err := ytypes.GetNode(rs, root, p)
				if err != nil || len(nodes) != 1 {
					rt.Fatalf("GetNode(%s) = %d nodes, err %v; want exactly the entry\n%s", what, len(nodes), err, desc())
				}
				want := entryValue(root, ls.via, m, e)
				if reflect.ValueOf(nodes[0].Data).Pointer() != want.Pointer() {
					rt.Fatalf("GetNode(%s) returned a different entry\n%s", what, desc())
				}
				// SetNode on an empty tree creates the entry with the original key
				if dataLeaf != nil {
					fresh := v.NewRoot()
					lp := &gpb.Path{Elem: append(append([]*gpb.PathElem{}, p.Elem...), pathElems(dataLeaf.Paths[0])...)}
					val := e.N.Leaf[dataLeaf.Name]
					if err := ytypes.SetNode(rs, fresh, lp, model.ScalarTV(val), &ytypes.InitMissingElements{}); err != nil {
						rt.Fatalf("SetNode(%s/%s) on an empty tree failed: %v\n%s", what, dataLeaf.SchemaPath(), err, desc())
					}
					wantTree := model.NewNode(v.Root)
					wc := wantTree
					for _, f := range ls.via[:len(ls.via)-1] {
						switch f.Kind {
						case model.FCont:
							c := model.NewNode(f.Child)
							wc.Cont[f.Name] = c
							wc = c
						default:
							pe := findEntryOnChain(m, ls.via, f)
							ne := &model.Entry{Key: pe.Key, N: model.NewNode(f.Child)}
							for j, kf := range f.KeyFields {
								ne.N.Leaf[kf.Name] = pe.Key[j]
							}
							wc.List[f.Name] = []*model.Entry{ne}
							wc = ne.N
						}
					}
					ne := &model.Entry{Key: e.Key, N: model.NewNode(lf.Child)}
					for j, kf := range lf.KeyFields {
						ne.N.Leaf[kf.Name] = e.Key[j]
					}
					ne.N.Leaf[dataLeaf.Name] = val
					wc.List[lf.Name] = []*model.Entry{ne}
					got := model.ObserveNorm(v, fresh)
					if d := model.Diff(wantTree.Normalize(), got, model.DiffOpts{LooseEnum: true}); len(d) > 0 {
						rt.Fatalf("SetNode(%s/%s) on an empty tree did not create the entry with the original key:\n  %s\n%s", what, dataLeaf.SchemaPath(), th.JoinDiff(d), desc())
					}
				}
				// DeleteNode removes exactly this entry
				copyRoot := model.Build(m)
				if err := ytypes.DeleteNode(rs, copyRoot, p); err != nil {
					rt.Fatalf("DeleteNode(%s) failed: %v\n%s", what, err, desc())
				}
				after := m.Clone()
				ao := findOwner(after, ls.via, m)
				var keep []*model.Entry
				for _, x := range ao.List[lf.Name] {
					if model.KeyLoose(x.Key) != model.KeyLoose(e.Key) {
						keep = append(keep, x)
					}
				}
				if len(keep) == 0 {
					delete(ao.List, lf.Name)
				} else {
					ao.List[lf.Name] = keep
				}
				got := model.ObserveNorm(v, copyRoot).DropEmptyContainers()
				if d := model.Diff(after.Normalize().DropEmptyContainers(), got, model.DiffOpts{LooseEnum: true}); len(d) > 0 {
					rt.Fatalf("DeleteNode(%s) did not remove exactly that entry:\n  %s\n%s", what, th.JoinDiff(d), desc())
				}
			}
			_ = i
		}
		_ = owner
	})
}

func pelems(p []string) []model.PElem {
	out := make([]model.PElem, len(p))
	for i, s := range p {
		out[i] = model.PElem{Name: s}
	}
	return out
}

func pathElems(p []string) []*gpb.PathElem {
	out := make([]*gpb.PathElem, len(p))
	for i, s := range p {
		out[i] = &gpb.PathElem{Name: s}
	}
	return out
}

// findEntryOnChain returns the single entry the chain passes through at list field f.
func findEntryOnChain(m *model.Node, via []*model.FieldInfo, f *model.FieldInfo) *model.Entry {
	cur := m
	for _, x := range via {
		switch x.Kind {
		case model.FCont:
			cur = cur.Cont[x.Name]
		default:
			e := cur.List[x.Name][0]
			if x == f {
				return e
			}
			cur = e.N
		}
	}
	return nil
}

// findOwner returns, in tree `t` (a clone of m), the node owning the last list of the chain.
func findOwner(t *model.Node, via []*model.FieldInfo, m *model.Node) *model.Node {
	cur := t
	for _, x := range via[:len(via)-1] {
		switch x.Kind {
		case model.FCont:
			cur = cur.Cont[x.Name]
		default:
			cur = cur.List[x.Name][0].N
		}
	}
	return cur
}

// entryValue finds the built GoStruct value (pointer) of entry e of the chain's last list.
func entryValue(root ygot.GoStruct, via []*model.FieldInfo, m *model.Node, e *model.Entry) reflect.Value {
	cur := reflect.ValueOf(root)
	for i, f := range via {
		fv := cur.Elem().Field(f.Index)
		last := i == len(via)-1
		switch f.Kind {
		case model.FCont:
			cur = fv
		case model.FList, model.FOrdList:
			key := e.Key
			if !last {
				key = findEntryOnChain(m, via, f).Key
			}
			if f.Kind == model.FOrdList {
				r := fv.MethodByName("Get").Call(keyArgs(f, key))
				cur = r[0]
			} else {
				cur = reflect.Value{}
				it := fv.MapRange()
				for it.Next() { // by value: wrapper-union keys are pointers, MapIndex cannot find them
					if model.KeyLoose(model.ObserveKey(f, it.Key())) == model.KeyLoose(key) {
						cur = it.Value()
					}
				}
			}
			if !cur.IsValid() || cur.IsNil() {
				return reflect.Value{}
			}
		}
	}
	return cur
}

func keyArgs(f *model.FieldInfo, key []model.Val) []reflect.Value {
	k := model.GoKey(f, key)
	return []reflect.Value{k}
}
