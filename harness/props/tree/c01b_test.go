package tree

import (
	"testing"

	"pgregory.net/rapid"
	"verifharness/ev"
	"verifharness/model"
	"verifharness/th"
)

// C01, second direction: documents rendered by the harness's own RFC 7951 renderer (with and without
// module prefixes, with one or all path alternatives of compressed key leaves) must unmarshal into
// exactly the modelled tree.
func TestC01_HarnessRendered(t *testing.T) {
	rec := ev.Start(t, "C01")
	th.WitnessAll(rec)
	rapid.Check(t, func(rt *rapid.T) {
		v := th.PickVariant(rt, th.AllVariants...)
		o := model.GenOpts{}
		th.SteerAway(rec, &o)
		m := model.GenTree(rt, v, o)
		jo := model.JSONOpts{Prefix: rapid.Bool().Draw(rt, "prefix"), AllAlts: rapid.Bool().Draw(rt, "allalts")}
		if !jo.Prefix {
			jo.IdentPrefix = rapid.Bool().Draw(rt, "identprefix")
		}
		js := model.RenderJSON(m, jo)
		st := m.Stat()
		nt := st.Entries > 0 && (st.Unions+st.Enums+st.Decimals+st.Int64s+st.Binaries) > 0
		rec.Case(v.Name+"|harness|"+string(js), nt, append(th.TreeClasses(v, st), "direction:harness-rendered")...)
		root := v.NewRoot()
		if err := v.Unmarshal(js, root); err != nil {
			if rec.Excuse(th.F28, th.IsF28(v, m, err)) {
				return
			}
			rt.Fatalf("Unmarshal rejects an RFC 7951 document of a schema-conforming tree (%+v): %v\njson: %s\ntree:\n%s", jo, err, js, m.Dump())
		}
		got := model.ObserveNorm(v, root)
		if d := model.Diff(m, got, model.DiffOpts{}); len(d) > 0 {
			rt.Fatalf("Unmarshal of the harness rendering (%+v) gives a different tree (variant %s):\n  %s\njson: %s\ntree:\n%s", jo, v.Name, th.JoinDiff(d), js, m.Dump())
		}
	})
}
