package tree

import (
	"fmt"

	"github.com/openconfig/ygot/ygot"
	"verifharness/ev"
	"verifharness/variants"
)

// F99: RFC 7951 rendering orders the entries of a keyed list by a key string in which the values of a
// multi-key list are joined by a space. ("zone a","b") and ("zone","a b") have the same string, so their
// order in the output follows map iteration order: rendering one tree twice can give different bytes.
// Found by C01 when the model generator started to draw such key tuples.
const F99 = "F99-render-order-ambiguous-multikey"

func witnessF99(rec *ev.Rec) {
	rec.Witness(F99, func() (bool, string) {
		v := variants.Get("vtu")
		root := v.NewRoot()
		doc := `{"top":{"keyed":{"mkza":[{"zone":"zone a","area":"b","v":"1"},{"zone":"zone","area":"a b","v":"2"}]}}}`
		if err := v.Unmarshal([]byte(doc), root); err != nil {
			panic("HARNESS-BUG: F99 witness: " + err.Error())
		}
		first, err := ygot.Marshal7951(root)
		if err != nil {
			return true, "a valid tree cannot be rendered: " + err.Error()
		}
		// two entries, map iteration order is random per range statement: 40 renderings agree by chance
		// with probability 2^-39
		for i := 0; i < 40; i++ {
			again, _ := ygot.Marshal7951(root)
			if string(again) != string(first) {
				return true, fmt.Sprintf("two renderings of one tree differ:\n%s\n%s", first, again)
			}
		}
		return false, ""
	})
}
