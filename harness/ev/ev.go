// Package ev is the evidence recorder shared by all property checks.
//
// A check calls ev.Start(t, "C08") once, then for every generated case
// rec.Case(key, nontrivial, classes...). At test end a side file
// $VERIF_OUT/<prop>.<shard>.json (+ .hashes) is written; the python driver merges shards
// into /verif/evidence/<prop>.json. Known findings (KNOWN_FINDINGS.json) are consulted
// through rec.Witness / rec.Excuse; nothing is ever written to that file.
package ev

import (
	"encoding/binary"
	"encoding/json"
	"fmt"
	"hash/fnv"
	"os"
	"path/filepath"
	"sort"
	"strconv"
	"sync"
	"testing"
)

// Finding is one entry of KNOWN_FINDINGS.json.
type Finding struct {
	ID        string   `json:"id"`
	Property  []string `json:"properties"`
	Status    string   `json:"status"` // open | fixed
	Commit    string   `json:"commit,omitempty"`
	What      string   `json:"what"`
	Trigger   string   `json:"trigger,omitempty"`
	Signature string   `json:"signature,omitempty"`
	Witness   string   `json:"witness,omitempty"`
}

type kfFile struct {
	Findings []Finding `json:"findings"`
}

var (
	kfOnce sync.Once
	kfMap  map[string]Finding
)

func findings() map[string]Finding {
	kfOnce.Do(func() {
		kfMap = map[string]Finding{}
		p := os.Getenv("VERIF_KF")
		if p == "" {
			p = filepath.Join(VerifDir(), "KNOWN_FINDINGS.json")
		}
		b, err := os.ReadFile(p)
		if err != nil {
			return
		}
		var f kfFile
		if err := json.Unmarshal(b, &f); err != nil {
			panic("KNOWN_FINDINGS.json: " + err.Error())
		}
		for _, x := range f.Findings {
			kfMap[x.ID] = x
		}
	})
	return kfMap
}

// VerifDir returns /verif (or $VERIF_DIR).
func VerifDir() string {
	if d := os.Getenv("VERIF_DIR"); d != "" {
		return d
	}
	return "/verif"
}

// Tier returns "quick" or "thorough".
func Tier() string {
	if os.Getenv("VERIF_TIER") == "thorough" {
		return "thorough"
	}
	return "quick"
}

// Thorough reports whether the thorough tier is running.
func Thorough() bool { return Tier() == "thorough" }

// Scale returns q in the quick tier and th in the thorough tier; VERIF_SCALE (float) multiplies both.
func Scale(q, th int) int {
	n := q
	if Thorough() {
		n = th
	}
	if s := os.Getenv("VERIF_SCALE"); s != "" {
		if f, err := strconv.ParseFloat(s, 64); err == nil && f > 0 {
			n = int(float64(n) * f)
			if n < 1 {
				n = 1
			}
		}
	}
	return n
}

// Seed returns the derived (never 0) seed of this shard, for checks that enumerate or
// need a deterministic non-rapid choice. rapid checks get it through -rapid.seed.
func Seed() uint64 {
	s, _ := strconv.ParseUint(os.Getenv("VERIF_SHARD_SEED"), 10, 64)
	if s == 0 {
		s = 1
	}
	return s
}

// Shard and Shards give this process's index and the shard count.
func Shard() int { n, _ := strconv.Atoi(os.Getenv("VERIF_SHARD")); return n }
func Shards() int {
	n, _ := strconv.Atoi(os.Getenv("VERIF_SHARDS"))
	if n < 1 {
		n = 1
	}
	return n
}

// Rec accumulates evidence for one property in one process.
type Rec struct {
	mu         sync.Mutex
	t          *testing.T
	Prop       string
	evals      int64
	hashes     map[uint64]struct{}
	classes    map[string]int64
	known      map[string]int64
	samples    []interface{}
	maxSample  int
	rule       string
	extra      map[string]interface{}
	witness    map[string]witnessRes
	assume     []string
	exhaustive bool
	violations []map[string]interface{}
}

type witnessRes struct {
	Active bool   `json:"active"`
	Fails  bool   `json:"witness_fails"`
	Status string `json:"status"`
	What   string `json:"what"`
	Note   string `json:"note,omitempty"`
}

var (
	recMu sync.Mutex
	recs  = map[string]*Rec{}
)

// Start returns the recorder for prop and arranges for it to be flushed when t ends.
// Several tests may share one property id: they share the recorder.
func Start(t *testing.T, prop string) *Rec {
	recMu.Lock()
	defer recMu.Unlock()
	r, ok := recs[prop]
	if !ok {
		r = &Rec{Prop: prop, hashes: map[uint64]struct{}{}, classes: map[string]int64{}, known: map[string]int64{},
			maxSample: 5, extra: map[string]interface{}{}, witness: map[string]witnessRes{}}
		recs[prop] = r
	}
	r.t = t
	t.Cleanup(func() { r.Flush() })
	return r
}

// Rule states how cases are generated and what counts as non-trivial.
func (r *Rec) Rule(s string) { r.mu.Lock(); r.rule = s; r.mu.Unlock() }

// Assume records an assumption for the evidence file.
func (r *Rec) Assume(s string) {
	r.mu.Lock()
	defer r.mu.Unlock()
	for _, a := range r.assume {
		if a == s {
			return
		}
	}
	r.assume = append(r.assume, s)
}

// Exhaustive marks that a finite space was enumerated completely.
func (r *Rec) Exhaustive() { r.mu.Lock(); r.exhaustive = true; r.mu.Unlock() }

// Set stores an extra coverage key.
func (r *Rec) Set(k string, v interface{}) { r.mu.Lock(); r.extra[k] = v; r.mu.Unlock() }

// Add adds n to an extra integer coverage key.
func (r *Rec) Add(k string, n int64) {
	r.mu.Lock()
	defer r.mu.Unlock()
	cur, _ := r.extra[k].(int64)
	r.extra[k] = cur + n
}

func hash64(s string) uint64 { h := fnv.New64a(); h.Write([]byte(s)); return h.Sum64() }

// Case counts one evaluated case. key is a canonical encoding of the case (used only for
// distinctness, hashed); nontrivial says whether the case satisfies the property's stated rule.
func (r *Rec) Case(key string, nontrivial bool, classes ...string) {
	r.mu.Lock()
	defer r.mu.Unlock()
	r.evals++
	if nontrivial {
		r.hashes[hash64(key)] = struct{}{}
		r.classes["nontrivial"]++
	}
	for _, c := range classes {
		r.classes[c]++
	}
}

// Class increments a class counter without counting a case.
func (r *Rec) Class(cs ...string) {
	r.mu.Lock()
	for _, c := range cs {
		r.classes[c]++
	}
	r.mu.Unlock()
}

// Sample keeps up to 5 cases verbatim: the first two, then spread (every 2^k-th).
func (r *Rec) Sample(v interface{}) {
	r.mu.Lock()
	defer r.mu.Unlock()
	n := r.evals
	if len(r.samples) < 2 {
		r.samples = append(r.samples, v)
		return
	}
	if n&(n-1) == 0 && n >= 8 { // powers of two
		if len(r.samples) < r.maxSample {
			r.samples = append(r.samples, v)
		} else {
			r.samples[2+int(n%3)] = v
		}
	}
}

// WantSample says cheaply whether Sample would keep a value now (avoid building big dumps).
func (r *Rec) WantSample() bool {
	r.mu.Lock()
	defer r.mu.Unlock()
	n := r.evals
	return len(r.samples) < 2 || (n&(n-1) == 0 && n >= 8)
}

// Witness replays the fixed minimal input of finding id. fails must run the witness against the
// real code and report whether it still violates the property.
//   - entry open  + witness fails  -> finding active: KNOWN-FINDING line, predicate enabled
//   - entry open  + witness passes -> predicate disabled for this run (note on stderr)
//   - entry fixed/absent + fails   -> violation (the defect is back / unlisted)
//   - entry fixed/absent + passes  -> nothing
func (r *Rec) Witness(id string, fails func() (bool, string)) {
	f, listed := findings()[id]
	bad, detail := safeWitness(fails)
	r.mu.Lock()
	w := witnessRes{Fails: bad, Status: "absent", What: f.What}
	if listed {
		w.Status = f.Status
	}
	open := listed && f.Status == "open"
	switch {
	case open && bad:
		w.Active = true
	case open && !bad:
		w.Note = "witness no longer fails; predicate disabled for this run"
		fmt.Fprintf(os.Stderr, "NOTE property=%s finding=%s witness no longer fails; predicate disabled\n", r.Prop, id)
	}
	r.witness[id] = w
	r.mu.Unlock()
	if !open && bad {
		r.Violation(map[string]interface{}{"kind": "witness", "finding": id, "detail": detail})
		t, status := r.t, w.Status
		// fail at the end of the test: rapid.Check refuses to start on an already failed *testing.T
		t.Cleanup(func() { t.Errorf("witness of finding %s (status %s) fails on this tree: %s", id, status, detail) })
	}
}

func safeWitness(f func() (bool, string)) (bad bool, detail string) {
	defer func() {
		if p := recover(); p != nil {
			bad, detail = true, fmt.Sprintf("panic: %v", p)
		}
	}()
	return f()
}

// Active reports whether finding id is open and its witness still fails in this run.
func (r *Rec) Active(id string) bool {
	r.mu.Lock()
	defer r.mu.Unlock()
	return r.witness[id].Active
}

// Excuse returns true (and counts an exclusion) when finding id is active and trigger holds:
// the caller then skips the failing postcondition instead of reporting a violation.
func (r *Rec) Excuse(id string, trigger bool) bool {
	if !trigger {
		return false
	}
	r.mu.Lock()
	defer r.mu.Unlock()
	if !r.witness[id].Active {
		return false
	}
	r.known[id]++
	return true
}

// Violation stores a replayable description of a failing case (for non-rapid checks; rapid
// checks get their replay from rapid's fail file).
func (r *Rec) Violation(v map[string]interface{}) {
	r.mu.Lock()
	defer r.mu.Unlock()
	if len(r.violations) < 20 {
		r.violations = append(r.violations, v)
	}
}

type sideFile struct {
	Prop        string                   `json:"property_id"`
	Shard       int                      `json:"shard"`
	Evaluations int64                    `json:"evaluations"`
	Distinct    int                      `json:"distinct_nontrivial"`
	Rule        string                   `json:"rule"`
	Classes     map[string]int64         `json:"classes"`
	Known       map[string]int64         `json:"excluded_known"`
	Samples     []interface{}            `json:"samples"`
	Extra       map[string]interface{}   `json:"extra"`
	Witness     map[string]witnessRes    `json:"witness"`
	Assumptions []string                 `json:"assumptions"`
	Exhaustive  bool                     `json:"exhaustive"`
	Violations  []map[string]interface{} `json:"violations"`
	Failed      bool                     `json:"failed"`
}

// Flush writes the side files. Safe to call more than once.
func (r *Rec) Flush() {
	r.mu.Lock()
	defer r.mu.Unlock()
	dir := os.Getenv("VERIF_OUT")
	if dir == "" {
		return
	}
	os.MkdirAll(dir, 0o755)
	sf := sideFile{Prop: r.Prop, Shard: Shard(), Evaluations: r.evals, Distinct: len(r.hashes), Rule: r.rule,
		Classes: r.classes, Known: r.known, Samples: r.samples, Extra: r.extra, Witness: r.witness,
		Assumptions: r.assume, Exhaustive: r.exhaustive, Violations: r.violations, Failed: r.t != nil && r.t.Failed()}
	b, err := json.MarshalIndent(sf, "", " ")
	if err != nil {
		// a sample was not serialisable: drop samples rather than lose the counts
		sf.Samples = []interface{}{fmt.Sprintf("unserialisable sample: %v", err)}
		b, _ = json.MarshalIndent(sf, "", " ")
	}
	base := filepath.Join(dir, fmt.Sprintf("%s.%d", r.Prop, Shard()))
	os.WriteFile(base+".json", b, 0o644)
	hs := make([]uint64, 0, len(r.hashes))
	for h := range r.hashes {
		hs = append(hs, h)
	}
	sort.Slice(hs, func(i, j int) bool { return hs[i] < hs[j] })
	buf := make([]byte, 8*len(hs))
	for i, h := range hs {
		binary.LittleEndian.PutUint64(buf[8*i:], h)
	}
	os.WriteFile(base+".hashes", buf, 0o644)
}

// JSON renders v compactly for use as a case key or sample.
func JSON(v interface{}) string {
	b, err := json.Marshal(v)
	if err != nil {
		return fmt.Sprintf("%+v", v)
	}
	return string(b)
}
