package pipeline

import (
	"os"
	"path/filepath"
	"sort"
	"strings"
)

// RepoInput is one YANG file of the repository under test that is used as a generator input.
type RepoInput struct {
	Input
	OpenConfigStyle bool // follows the OpenConfig conventions (compression is inside the domain)
}

// repoYangDirs: directories of the repository with YANG that its own tests feed to the generators.
// (integration_tests/testdata/errors holds deliberately broken input and is left out.)
var repoYangDirs = []struct {
	dir string
	oc  bool
}{
	{"testdata/modules", true},
	{"integration_tests/schemaops/yang", false},
	{"integration_tests/uncompressed/yang", false},
	{"gogen/testdata/schema", true},
	{"protogen/testdata/proto", false},
	{"demo/uncompressed/yang", false},
	{"demo/getting_started/yang", true},
}

// RepoInputs lists the repository's YANG files, one input per file, sorted. Whether the
// generators accept a file (some are negative tests, some need particular flags) is decided by
// running them: a generator error on these inputs is "input rejected", not a violation.
func RepoInputs() []RepoInput {
	var out []RepoInput
	for _, d := range repoYangDirs {
		dir := filepath.Join(RepoDir(), d.dir)
		es, err := os.ReadDir(dir)
		if err != nil {
			continue
		}
		var names []string
		for _, e := range es {
			if !e.IsDir() && strings.HasSuffix(e.Name(), ".yang") {
				names = append(names, e.Name())
			}
		}
		sort.Strings(names)
		for _, n := range names {
			oc := d.oc && strings.HasPrefix(n, "openconfig-")
			out = append(out, RepoInput{Input: Input{Name: "repo:" + d.dir + "/" + n, Dir: dir, Roots: []string{n}}, OpenConfigStyle: oc})
		}
	}
	return out
}
