package pipeline

import (
	"encoding/json"
	"fmt"
	"os"
	"sort"
	"strings"
	"testing"

	"pgregory.net/rapid"
	"verifharness/yanggen"
)

// TestPipelineSmoke (development aid, PIPELINE_SMOKE=1): random schemas through the real generator;
// prints the generator's error messages grouped by their first line.
func TestPipelineSmoke(t *testing.T) {
	if os.Getenv("PIPELINE_SMOKE") == "" {
		t.Skip("set PIPELINE_SMOKE")
	}
	hostile := os.Getenv("PIPELINE_SMOKE") == "hostile"
	errs := map[string]int{}
	example := map[string]string{}
	n, bad := 0, 0
	rapid.Check(t, func(rt *rapid.T) {
		oc := rapid.Bool().Draw(rt, "oc")
		s := yanggen.Draw(rt, yanggen.Options{OpenConfigStyle: oc, Hostile: hostile})
		f := DrawFlags(rt, HintsFor(s.Features))
		sc, err := NewScratch("smoke")
		if err != nil {
			rt.Fatalf("HARNESS-BUG: %v", err)
		}
		defer sc.Remove()
		ydir := sc.Sub("yang")
		if err := s.WriteTo(ydir); err != nil {
			rt.Fatalf("HARNESS-BUG: %v", err)
		}
		out := sc.Sub("out")
		r := RunGenerator(Input{Name: "random", Dir: ydir, Roots: s.Roots}, f, out, "gp")
		n++
		if r.Failed() {
			bad++
			line := r.Output
			if i := strings.Index(line, "ERROR"); i >= 0 {
				line = line[i:]
			}
			line = strings.SplitN(line, "\n", 2)[0]
			// normalise
			for _, w := range strings.Fields(line) {
				if strings.Contains(w, "/") {
					line = strings.ReplaceAll(line, w, "<p>")
				}
			}
			line = trunc(line, 160)
			errs[line]++
			if example[line] == "" {
				example[line] = fmt.Sprintf("%s\n%s\n%s", r.CmdLine(), trunc(r.Output, 600), s.Key())
			}
		}
	})
	keys := make([]string, 0, len(errs))
	for k := range errs {
		keys = append(keys, k)
	}
	sort.Strings(keys)
	t.Logf("schemas=%d generator failures=%d", n, bad)
	for _, k := range keys {
		t.Logf("%4d  %s", errs[k], k)
	}
	if os.Getenv("PIPELINE_SMOKE_EX") != "" {
		for _, k := range keys {
			t.Logf("=========== %s\n%s", k, example[k])
		}
	}
}

// TestPipelineCorpus (development aid, PIPELINE_CORPUS=1): the fixed corpus variants through CheckGo.
func TestPipelineCorpus(t *testing.T) {
	if os.Getenv("PIPELINE_CORPUS") == "" {
		t.Skip("set PIPELINE_CORPUS")
	}
	for _, v := range []struct {
		name  string
		roots []string
		f     Flags
	}{
		{"vtu", []string{"vt.yang", "vt-udef.yang"}, Flags{FakeRoot: true, FakeRootName: "device", SimpleUnions: true, YangPresence: true, Getters: true, Append: true, Delete: true, Rename: true, LeafGetters: true, PopulateDefaults: true}},
		{"vocc", []string{"voc.yang", "voc-aug.yang"}, Flags{Compress: true, FakeRoot: true, SimpleUnions: true, IgnoreShadowSchemaPaths: true, PathStructs: true, Getters: true}},
		{"voco", []string{"voc.yang", "voc-aug.yang"}, Flags{Compress: true, PreferOperationalState: true, FakeRoot: true, SimpleUnions: true}},
		{"vocu-nofr", []string{"voc.yang", "voc-aug.yang"}, Flags{SimpleUnions: true}},
		{"vocx", []string{"voc.yang", "voc-aug.yang"}, Flags{Compress: true, ExcludeState: true, FakeRoot: true}},
	} {
		c := CheckGo(Input{Name: "corpus:" + v.name, Dir: CorpusDir(), Roots: v.roots}, v.f)
		t.Logf("%s: stage=%s harness=%q build=%v vet=%v run=%v wall=%v", v.name, c.Stage, c.HarnessError, c.BuildFailed, c.VetFailed, c.RunFailed, c.Wall)
		if c.Stage != "done" {
			t.Logf("%s", c.Describe(""))
			continue
		}
		t.Logf("  c26 stats=%v violations=%d", c.Verdict.C26.Stats, len(c.Verdict.C26.Violations))
		for _, x := range c.Verdict.C26.Violations {
			t.Logf("    C26: %s", x)
		}
		t.Logf("  c27 stats=%v violations=%d", c.Verdict.C27.Stats, len(c.Verdict.C27.Violations))
		for _, x := range c.Verdict.C27.Violations {
			t.Logf("    C27: %s", x)
		}
	}
}

// TestPipelineDir (development aid): PIPELINE_DIR=<yang dir> PIPELINE_ROOTS=a.yang,b.yang [PIPELINE_FLAGS='{"FakeRoot":true}'].
func TestPipelineDir(t *testing.T) {
	dir := os.Getenv("PIPELINE_DIR")
	if dir == "" {
		t.Skip("set PIPELINE_DIR")
	}
	var f Flags
	if s := os.Getenv("PIPELINE_FLAGS"); s != "" {
		if err := json.Unmarshal([]byte(s), &f); err != nil {
			t.Fatal(err)
		}
	}
	c := CheckGo(Input{Name: dir, Dir: dir, Roots: strings.Split(os.Getenv("PIPELINE_ROOTS"), ",")}, f)
	t.Logf("stage=%s harness=%q gen-failed=%v build=%v vet=%v run=%v wall=%v", c.Stage, c.HarnessError, c.GenFailed(), c.BuildFailed, c.VetFailed, c.RunFailed, c.Wall)
	if c.Stage != "done" || c.VetFailed {
		t.Logf("%s", c.Describe(""))
	}
	if c.Verdict != nil {
		for _, x := range c.Verdict.C26.Violations {
			t.Logf("    C26: %s", x)
		}
		for _, x := range c.Verdict.C27.Violations {
			t.Logf("    C27: %s", x)
		}
		t.Logf("c26=%v c27=%v", c.Verdict.C26.Stats, c.Verdict.C27.Stats)
	}
	if os.Getenv("PIPELINE_DUMP") != "" {
		for n, s := range c.Files {
			t.Logf("---- %s\n%s", n, s)
		}
	}
}
