package pipeline

import (
	"fmt"
	"os"
	"sort"
	"strings"
	"testing"

	"pgregory.net/rapid"
	"verifharness/yanggen"
)

// TestPipelineSmoke (development aid, PIPELINE_SMOKE=1): random schemas through the real generator;
// prints the generator's error messages grouped by their first line.
func TestPipelineSmoke(t *testing.T) {
	if os.Getenv("PIPELINE_SMOKE") == "" {
		t.Skip("set PIPELINE_SMOKE")
	}
	hostile := os.Getenv("PIPELINE_SMOKE") == "hostile"
	errs := map[string]int{}
	example := map[string]string{}
	n, bad := 0, 0
	rapid.Check(t, func(rt *rapid.T) {
		oc := rapid.Bool().Draw(rt, "oc")
		s := yanggen.Draw(rt, yanggen.Options{OpenConfigStyle: oc, Hostile: hostile})
		f := DrawFlags(rt, HintsFor(s.Features))
		sc, err := NewScratch("smoke")
		if err != nil {
			rt.Fatalf("HARNESS-BUG: %v", err)
		}
		defer sc.Remove()
		ydir := sc.Sub("yang")
		if err := s.WriteTo(ydir); err != nil {
			rt.Fatalf("HARNESS-BUG: %v", err)
		}
		out := sc.Sub("out")
		r := RunGenerator(Input{Name: "random", Dir: ydir, Roots: s.Roots}, f, out, "gp")
		n++
		if r.Failed() {
			bad++
			line := r.Output
			if i := strings.Index(line, "ERROR"); i >= 0 {
				line = line[i:]
			}
			line = strings.SplitN(line, "\n", 2)[0]
			// normalise
			for _, w := range strings.Fields(line) {
				if strings.Contains(w, "/") {
					line = strings.ReplaceAll(line, w, "<p>")
				}
			}
			line = trunc(line, 160)
			errs[line]++
			if example[line] == "" {
				example[line] = fmt.Sprintf("%s\n%s\n%s", r.CmdLine(), trunc(r.Output, 600), s.Key())
			}
		}
	})
	keys := make([]string, 0, len(errs))
	for k := range errs {
		keys = append(keys, k)
	}
	sort.Strings(keys)
	t.Logf("schemas=%d generator failures=%d", n, bad)
	for _, k := range keys {
		t.Logf("%4d  %s", errs[k], k)
	}
	if os.Getenv("PIPELINE_SMOKE_EX") != "" {
		for _, k := range keys {
			t.Logf("=========== %s\n%s", k, example[k])
		}
	}
}
