// Package pipeline runs /repo's generator binaries on a YANG input (random schema, corpus variant
// or repo testdata) into a scratch directory under $VERIF_DIR/.out, and (compile.go) builds, vets
// and runs a per-schema checker program against the generated package.
//
// Environment (all exported by the driver, see vlib.py):
//
//	VERIF_BIN      directory holding the generator and proto_generator binaries built from the
//	               repo under test (default $VERIF_DIR/.bin)
//	VERIF_DIR      /verif
//	VERIF_HARNESS  the harness module directory whose go.mod/go.sum are the template for scratch
//	               modules (default $VERIF_DIR/harness)
//	VERIF_OUTDIR   where scratch directories are created (default $VERIF_DIR/.out)
package pipeline

import (
	"bytes"
	"crypto/sha256"
	"encoding/hex"
	"fmt"
	"io/fs"
	"os"
	"os/exec"
	"path/filepath"
	"sort"
	"strings"
	"time"
)

// VerifDir returns $VERIF_DIR or /verif.
func VerifDir() string {
	if d := os.Getenv("VERIF_DIR"); d != "" {
		return d
	}
	return "/verif"
}

// BinDir returns the directory with the generator binaries.
func BinDir() string {
	if d := os.Getenv("VERIF_BIN"); d != "" {
		return d
	}
	return filepath.Join(VerifDir(), ".bin")
}

// HarnessDir returns the harness module directory.
func HarnessDir() string {
	if d := os.Getenv("VERIF_HARNESS"); d != "" {
		return d
	}
	return filepath.Join(VerifDir(), "harness")
}

// RepoDir returns the repository under test.
func RepoDir() string {
	if d := os.Getenv("VERIF_REPO"); d != "" {
		return d
	}
	return "/repo"
}

// OutDir returns the parent of all scratch directories.
func OutDir() string {
	if d := os.Getenv("VERIF_OUTDIR"); d != "" {
		return d
	}
	return filepath.Join(VerifDir(), ".out")
}

// CorpusDir returns the fixed YANG corpus directory.
func CorpusDir() string { return filepath.Join(VerifDir(), "corpus", "yang") }

// Scratch is a temporary directory under OutDir()/scratch.
type Scratch struct{ Dir string }

// NewScratch creates a scratch directory; the caller must Remove it (defer; also on failure).
func NewScratch(prefix string) (*Scratch, error) {
	base := filepath.Join(OutDir(), "scratch")
	if err := os.MkdirAll(base, 0o755); err != nil {
		return nil, err
	}
	d, err := os.MkdirTemp(base, prefix+"-")
	if err != nil {
		return nil, err
	}
	return &Scratch{Dir: d}, nil
}

// Remove deletes the scratch directory.
func (s *Scratch) Remove() {
	if s != nil && s.Dir != "" && os.Getenv("VERIF_KEEP_SCRATCH") == "" {
		os.RemoveAll(s.Dir)
	}
}

// Sub creates and returns a subdirectory.
func (s *Scratch) Sub(name string) string {
	d := filepath.Join(s.Dir, name)
	os.MkdirAll(d, 0o755)
	return d
}

// Input is a set of YANG files to generate code from.
type Input struct {
	Name  string   // label for messages ("random", "corpus:vocc", "repo:testdata/modules/...")
	Dir   string   // directory passed as -path (searched recursively for imports)
	Roots []string // file names relative to Dir (or absolute) passed as positional arguments
}

// RootPaths returns absolute root file paths.
func (in Input) RootPaths() []string {
	var out []string
	for _, r := range in.Roots {
		if filepath.IsAbs(r) {
			out = append(out, r)
		} else {
			out = append(out, filepath.Join(in.Dir, r))
		}
	}
	return out
}

// Result describes one generator process.
type Result struct {
	Cmd      []string
	Output   string // combined stdout+stderr
	Err      error  // non-nil: the generator exited non-zero / could not start / timed out
	TimedOut bool
	Wall     time.Duration
}

// Failed reports whether the generator did not succeed.
func (r *Result) Failed() bool { return r.Err != nil }

// CmdLine renders the command for messages.
func (r *Result) CmdLine() string { return strings.Join(r.Cmd, " ") }

// goEnv is the environment for go and generator subprocesses.
func goEnv(extra ...string) []string {
	env := os.Environ()
	env = append(env, "GOFLAGS=-mod=mod", "GOPROXY=off", "GOSUMDB=off", "GOTOOLCHAIN=local")
	return append(env, extra...)
}

func runCmd(dir string, timeout time.Duration, env []string, argv ...string) *Result {
	r := &Result{Cmd: argv}
	t0 := time.Now()
	cmd := exec.Command(argv[0], argv[1:]...)
	cmd.Dir = dir
	cmd.Env = env
	var buf bytes.Buffer
	cmd.Stdout, cmd.Stderr = &buf, &buf
	if err := cmd.Start(); err != nil {
		r.Err = err
		return r
	}
	done := make(chan error, 1)
	go func() { done <- cmd.Wait() }()
	select {
	case err := <-done:
		r.Err = err
	case <-time.After(timeout):
		cmd.Process.Kill()
		<-done
		r.Err = fmt.Errorf("timeout after %v", timeout)
		r.TimedOut = true
	}
	r.Output = buf.String()
	r.Wall = time.Since(t0)
	return r
}

// GeneratorTimeout bounds one generator process.
var GeneratorTimeout = 120 * time.Second

// RunGenerator runs `generator` (GoStructs and, when f.PathStructs, path structs) for in with
// flags f, writing package pkg into outDir (which must exist and should be empty). With
// f.SplitFiles == 0 the structs go to outDir/<pkg>.go (and path structs to outDir/<pkg>_path.go);
// otherwise -output_dir=outDir is used.
func RunGenerator(in Input, f Flags, outDir, pkg string) *Result {
	argv := []string{filepath.Join(BinDir(), "generator"), "-path=" + in.Dir, "-package_name=" + pkg}
	argv = append(argv, f.Args()...)
	if f.SplitFiles > 0 {
		argv = append(argv, "-output_dir="+outDir, fmt.Sprintf("-structs_split_files_count=%d", f.SplitFiles))
		if f.PathStructs {
			argv = append(argv, fmt.Sprintf("-path_structs_split_files_count=%d", max(1, f.PathSplitFiles)))
		}
	} else {
		if !f.NoStructs {
			argv = append(argv, "-output_file="+filepath.Join(outDir, pkg+".go"))
		}
		if f.PathStructs {
			argv = append(argv, "-path_structs_output_file="+filepath.Join(outDir, pkg+"_path.go"))
		}
	}
	argv = append(argv, in.RootPaths()...)
	return runCmd(outDir, GeneratorTimeout, goEnv(), argv...)
}

// RunProtoGenerator runs `proto_generator` for in into outDir.
func RunProtoGenerator(in Input, f ProtoFlags, outDir string) *Result {
	argv := []string{filepath.Join(BinDir(), "proto_generator"), "-path=" + in.Dir, "-output_dir=" + outDir}
	argv = append(argv, f.Args()...)
	argv = append(argv, in.RootPaths()...)
	return runCmd(outDir, GeneratorTimeout, goEnv(), argv...)
}

// ReadTree returns relative path -> content of all regular files below dir.
func ReadTree(dir string) (map[string]string, error) {
	out := map[string]string{}
	err := filepath.WalkDir(dir, func(p string, d fs.DirEntry, err error) error {
		if err != nil {
			return err
		}
		if d.IsDir() {
			return nil
		}
		b, err := os.ReadFile(p)
		if err != nil {
			return err
		}
		rel, _ := filepath.Rel(dir, p)
		out[rel] = string(b)
		return nil
	})
	return out, err
}

// TreeHash is a digest of a file tree (names and contents).
func TreeHash(tree map[string]string) string {
	names := make([]string, 0, len(tree))
	for n := range tree {
		names = append(names, n)
	}
	sort.Strings(names)
	h := sha256.New()
	for _, n := range names {
		fmt.Fprintf(h, "%d:%s\n%d:", len(n), n, len(tree[n]))
		h.Write([]byte(tree[n]))
	}
	return hex.EncodeToString(h.Sum(nil))[:16]
}

// DiffTrees describes the first difference between two trees ("" when identical).
func DiffTrees(a, b map[string]string) string {
	var names []string
	seen := map[string]bool{}
	for n := range a {
		names = append(names, n)
		seen[n] = true
	}
	for n := range b {
		if !seen[n] {
			names = append(names, n)
		}
	}
	sort.Strings(names)
	for _, n := range names {
		x, okx := a[n]
		y, oky := b[n]
		switch {
		case !okx:
			return fmt.Sprintf("file %s only in the second run", n)
		case !oky:
			return fmt.Sprintf("file %s only in the first run", n)
		case x != y:
			la, lb := strings.Split(x, "\n"), strings.Split(y, "\n")
			for i := 0; i < len(la) || i < len(lb); i++ {
				var p, q string
				if i < len(la) {
					p = la[i]
				}
				if i < len(lb) {
					q = lb[i]
				}
				if p != q {
					return fmt.Sprintf("file %s differs at line %d:\n  run A: %s\n  run B: %s", n, i+1, trunc(p, 300), trunc(q, 300))
				}
			}
			return fmt.Sprintf("file %s differs", n)
		}
	}
	return ""
}

func trunc(s string, n int) string {
	if len(s) > n {
		return s[:n] + "…"
	}
	return s
}

// Trunc shortens s to n bytes for messages and samples.
func Trunc(s string, n int) string { return trunc(s, n) }
