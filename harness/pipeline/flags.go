package pipeline

import (
	"encoding/json"
	"fmt"
	"os"
	"path/filepath"
	"sort"
	"strings"

	"pgregory.net/rapid"
)

// Flags is a flag set of /repo's `generator` binary (input paths, package name and output
// locations are added by RunGenerator).
type Flags struct {
	Compress                bool // -compress_paths (only meaningful for OpenConfig-style input)
	PreferOperationalState  bool // needs Compress && !ExcludeState
	ExcludeState            bool
	IgnoreShadowSchemaPaths bool // needs Compress
	FakeRoot                bool
	FakeRootName            string // "" = default ("device")
	SimpleUnions            bool
	YangPresence            bool
	Getters                 bool
	Append                  bool
	Delete                  bool
	Rename                  bool
	LeafGetters             bool
	LeafSetters             bool
	PopulateDefaults        bool
	ShortenEnumLeafNames    bool
	TypedefEnumWithDefmod   bool
	EnumSuffixSimpleUnion   bool // needs TypedefEnumWithDefmod
	SkipEnumDedup           bool
	Annotations             bool
	IncludeModelData        bool
	IncludeDescriptions     bool
	UnorderedMaps           bool // -generate_ordered_maps=false
	NoSchema                bool // -include_schema=false (C25 only: C26/C27 need the schema)
	SplitFiles              int  // 0: one -output_file; n: -output_dir with -structs_split_files_count=n
	PathStructs             bool // needs Compress (and FakeRoot for a usable root)
	PathSplitFiles          int
	NoStructs               bool // -generate_structs=false (path structs only; needs SchemaStructPath)
	SchemaStructPath        string
	NoWildcardPaths         bool
	SimplifyWildcardPaths   bool
	ListBuilderKeyThreshold int
	Extra                   []string // verbatim additional flags
}

func b(name string, v bool) string {
	if v {
		return "-" + name
	}
	return ""
}

// Args renders the flag set (without input paths and output locations).
func (f Flags) Args() []string {
	all := []string{
		b("compress_paths", f.Compress), b("prefer_operational_state", f.PreferOperationalState), b("exclude_state", f.ExcludeState),
		b("ignore_shadow_schema_paths", f.IgnoreShadowSchemaPaths), b("generate_fakeroot", f.FakeRoot),
		b("generate_simple_unions", f.SimpleUnions), b("yangpresence", f.YangPresence), b("generate_getters", f.Getters),
		b("generate_append", f.Append), b("generate_delete", f.Delete), b("generate_rename", f.Rename),
		b("generate_leaf_getters", f.LeafGetters), b("generate_leaf_setters", f.LeafSetters),
		b("generate_populate_defaults", f.PopulateDefaults), b("shorten_enum_leaf_names", f.ShortenEnumLeafNames),
		b("typedef_enum_with_defmod", f.TypedefEnumWithDefmod), b("enum_suffix_for_simple_union_enums", f.EnumSuffixSimpleUnion),
		b("skip_enum_deduplication", f.SkipEnumDedup), b("annotations", f.Annotations), b("include_model_data", f.IncludeModelData),
		b("include_descriptions", f.IncludeDescriptions), b("generate_path_structs", f.PathStructs),
		b("simplify_wildcard_paths", f.SimplifyWildcardPaths),
	}
	if f.FakeRootName != "" {
		all = append(all, "-fakeroot_name="+f.FakeRootName)
	}
	if f.UnorderedMaps {
		all = append(all, "-generate_ordered_maps=false")
	}
	if f.NoSchema {
		all = append(all, "-include_schema=false")
	}
	if f.NoStructs {
		all = append(all, "-generate_structs=false", "-schema_struct_path="+f.SchemaStructPath)
	}
	if f.NoWildcardPaths {
		all = append(all, "-generate_wildcard_paths=false")
	}
	if f.ListBuilderKeyThreshold > 0 {
		all = append(all, fmt.Sprintf("-list_builder_key_threshold=%d", f.ListBuilderKeyThreshold))
	}
	all = append(all, f.Extra...)
	var out []string
	for _, a := range all {
		if a != "" {
			out = append(out, a)
		}
	}
	return out
}

// String is the canonical text of the flag set (for case keys and messages).
func (f Flags) String() string {
	s := strings.Join(f.Args(), " ")
	if f.SplitFiles > 0 {
		s += fmt.Sprintf(" [split=%d/%d]", f.SplitFiles, f.PathSplitFiles)
	}
	return s
}

// Hints tell DrawFlags what the input allows.
type Hints struct {
	OpenConfigStyle    bool // compression (and therefore path structs) is inside the domain
	UnionDefault       bool // a union-typed leaf has a default: wrapper unions are refused by gogen, so simple unions are forced
	MinStructs         int  // lower bound on the number of generated structs (limits -structs_split_files_count)
	NeedSchema         bool // never draw -include_schema=false
	NoPathStructs      bool
	ForceFakeRoot      bool
	ForceTypedefDefmod bool // the schema has same-named enumerated typedefs in two modules and the open finding about their conflation is steered around: always -typedef_enum_with_defmod
}

// DrawFlags draws a consistent generator flag set.
func DrawFlags(t *rapid.T, h Hints) Flags {
	bit := func(label string, pct int) bool { return rapid.IntRange(0, 99).Draw(t, "flag-"+label) < pct }
	var f Flags
	if h.OpenConfigStyle {
		f.Compress = bit("compress", 75)
	}
	f.FakeRoot = bit("fakeroot", 70) || h.ForceFakeRoot
	if f.FakeRoot && bit("fakerootname", 40) {
		f.FakeRootName = rapid.SampledFrom([]string{"device", "root", "top-x"}).Draw(t, "flag-fakerootname-v")
	}
	f.ExcludeState = bit("exclude_state", 12)
	if f.Compress {
		f.PreferOperationalState = !f.ExcludeState && bit("prefer_state", 30)
		f.IgnoreShadowSchemaPaths = bit("ignore_shadow", 40)
		f.ShortenEnumLeafNames = bit("shorten_enum", 40)
	}
	f.SimpleUnions = bit("simple_unions", 55) || h.UnionDefault
	f.YangPresence = bit("yangpresence", 50)
	f.Getters = bit("getters", 60)
	f.Append = bit("append", 60)
	f.Delete = bit("delete", 60)
	f.Rename = bit("rename", 50)
	f.LeafGetters = bit("leaf_getters", 50)
	f.LeafSetters = bit("leaf_setters", 40)
	f.PopulateDefaults = bit("populate_defaults", 55)
	f.TypedefEnumWithDefmod = bit("typedef_defmod", 40) || h.ForceTypedefDefmod
	f.EnumSuffixSimpleUnion = f.TypedefEnumWithDefmod && bit("enum_suffix", 50)
	f.SkipEnumDedup = bit("skip_dedup", 15)
	f.Annotations = bit("annotations", 20)
	f.IncludeModelData = bit("model_data", 20)
	f.IncludeDescriptions = bit("descriptions", 20)
	f.UnorderedMaps = bit("unordered_maps", 15)
	if !h.NeedSchema {
		f.NoSchema = bit("noschema", 10)
	}
	// -structs_split_files_count must not exceed the number of generated structs (the generator
	// refuses otherwise, which is documented flag validation, not a defect): split only when the
	// fake root guarantees one struct, and in two only when the schema certainly has more.
	if f.FakeRoot && bit("split", 30) {
		f.SplitFiles = 1
		if h.MinStructs >= 3 && !f.ExcludeState && bit("split2", 50) {
			f.SplitFiles = 2
		}
	}
	if f.Compress && f.FakeRoot && !h.NoPathStructs && bit("path_structs", 50) {
		f.PathStructs = true
		f.PathSplitFiles = 1
		f.NoWildcardPaths = bit("nowildcard", 15)
		f.SimplifyWildcardPaths = bit("simplifywildcard", 25)
		if bit("builder", 25) {
			f.ListBuilderKeyThreshold = rapid.IntRange(1, 3).Draw(t, "flag-builder-threshold")
		}
	}
	return f
}

// ProtoFlags is a flag set of `proto_generator`.
type ProtoFlags struct {
	Compress               bool
	FakeRoot               bool
	FakeRootName           string
	NoSchemaPaths          bool // -add_schemapaths=false
	NoEnumNames            bool // -add_enumnames=false
	PackageHierarchy       bool
	ExcludeState           bool
	PreferOperationalState bool
	SkipEnumDedup          bool
	PackageName            string
	BaseImportPath         string
	GoPackageBase          string
	Extra                  []string
}

// Args renders the flag set.
func (f ProtoFlags) Args() []string {
	all := []string{b("compress_paths", f.Compress), b("generate_fakeroot", f.FakeRoot), b("package_hierarchy", f.PackageHierarchy),
		b("exclude_state", f.ExcludeState), b("prefer_operational_state", f.PreferOperationalState), b("skip_enum_deduplication", f.SkipEnumDedup)}
	if f.FakeRootName != "" {
		all = append(all, "-fakeroot_name="+f.FakeRootName)
	}
	if f.NoSchemaPaths {
		all = append(all, "-add_schemapaths=false")
	}
	if f.NoEnumNames {
		all = append(all, "-add_enumnames=false")
	}
	if f.PackageName != "" {
		all = append(all, "-package_name="+f.PackageName)
	}
	if f.BaseImportPath != "" {
		all = append(all, "-base_import_path="+f.BaseImportPath)
	}
	if f.GoPackageBase != "" {
		all = append(all, "-go_package_base="+f.GoPackageBase)
	}
	all = append(all, f.Extra...)
	var out []string
	for _, a := range all {
		if a != "" {
			out = append(out, a)
		}
	}
	return out
}

// String is the canonical text of the flag set.
func (f ProtoFlags) String() string { return strings.Join(f.Args(), " ") }

// DrawProtoFlags draws a consistent proto_generator flag set.
func DrawProtoFlags(t *rapid.T, h Hints) ProtoFlags {
	bit := func(label string, pct int) bool { return rapid.IntRange(0, 99).Draw(t, "pflag-"+label) < pct }
	var f ProtoFlags
	if h.OpenConfigStyle {
		f.Compress = bit("compress", 70)
	}
	f.FakeRoot = bit("fakeroot", 60)
	if f.FakeRoot && bit("fakerootname", 30) {
		f.FakeRootName = rapid.SampledFrom([]string{"Device", "root"}).Draw(t, "pflag-fakerootname-v")
	}
	f.NoSchemaPaths = bit("noschemapaths", 25)
	f.NoEnumNames = bit("noenumnames", 25)
	f.PackageHierarchy = bit("hierarchy", 40)
	f.ExcludeState = bit("exclude_state", 12)
	f.PreferOperationalState = f.Compress && !f.ExcludeState && bit("prefer_state", 25)
	f.SkipEnumDedup = bit("skip_dedup", 15)
	if bit("pkgname", 40) {
		f.PackageName = rapid.SampledFrom([]string{"openconfig", "verif.pb", "x"}).Draw(t, "pflag-pkgname-v")
	}
	if bit("baseimport", 40) {
		f.BaseImportPath = "example.com/verif/proto"
	}
	if bit("gopkgbase", 30) {
		f.GoPackageBase = "example.com/verif/gopb"
	}
	return f
}

// HintsFor derives the hints from a random schema's feature histogram.
func HintsFor(features map[string]int) Hints {
	return Hints{
		OpenConfigStyle: features["style-openconfig"] > 0,
		UnionDefault:    features["union-default"] > 0,
		MinStructs:      features["container"] + features["list"],
	}
}

// FlagsFromArgs parses generator flags given as strings (corpus/variants.json) into a Flags
// value; flags it does not know are kept verbatim in Extra.
func FlagsFromArgs(args []string) Flags {
	var f Flags
	for _, a := range args {
		name, val := strings.TrimLeft(a, "-"), "true"
		if i := strings.Index(name, "="); i >= 0 {
			name, val = name[:i], name[i+1:]
		}
		on := val == "true"
		switch name {
		case "compress_paths":
			f.Compress = on
		case "prefer_operational_state":
			f.PreferOperationalState = on
		case "exclude_state":
			f.ExcludeState = on
		case "ignore_shadow_schema_paths":
			f.IgnoreShadowSchemaPaths = on
		case "generate_fakeroot":
			f.FakeRoot = on
		case "fakeroot_name":
			f.FakeRootName = val
		case "generate_simple_unions":
			f.SimpleUnions = on
		case "yangpresence":
			f.YangPresence = on
		case "generate_getters":
			f.Getters = on
		case "generate_append":
			f.Append = on
		case "generate_delete":
			f.Delete = on
		case "generate_rename":
			f.Rename = on
		case "generate_leaf_getters":
			f.LeafGetters = on
		case "generate_leaf_setters":
			f.LeafSetters = on
		case "generate_populate_defaults":
			f.PopulateDefaults = on
		case "shorten_enum_leaf_names":
			f.ShortenEnumLeafNames = on
		case "typedef_enum_with_defmod":
			f.TypedefEnumWithDefmod = on
		case "enum_suffix_for_simple_union_enums":
			f.EnumSuffixSimpleUnion = on
		case "skip_enum_deduplication":
			f.SkipEnumDedup = on
		case "annotations":
			f.Annotations = on
		case "include_model_data":
			f.IncludeModelData = on
		case "include_descriptions":
			f.IncludeDescriptions = on
		case "generate_ordered_maps":
			f.UnorderedMaps = !on
		case "include_schema":
			f.NoSchema = !on
		case "generate_path_structs":
			f.PathStructs = on
		default:
			f.Extra = append(f.Extra, a)
		}
	}
	return f
}

// Variant is one entry of corpus/variants.json.
type Variant struct {
	Name  string
	Yang  []string
	Flags Flags
}

// CorpusVariants reads corpus/variants.json.
func CorpusVariants() ([]Variant, error) {
	b, err := os.ReadFile(filepath.Join(VerifDir(), "corpus", "variants.json"))
	if err != nil {
		return nil, err
	}
	var raw struct {
		Common   []string `json:"common"`
		Variants map[string]struct {
			Yang        []string `json:"yang"`
			Flags       []string `json:"flags"`
			PathStructs bool     `json:"path_structs"`
		} `json:"variants"`
	}
	if err := json.Unmarshal(b, &raw); err != nil {
		return nil, err
	}
	var names []string
	for n := range raw.Variants {
		names = append(names, n)
	}
	sort.Strings(names)
	var out []Variant
	for _, n := range names {
		v := raw.Variants[n]
		f := FlagsFromArgs(append(append([]string{}, raw.Common...), v.Flags...))
		f.PathStructs = v.PathStructs
		out = append(out, Variant{Name: n, Yang: v.Yang, Flags: f})
	}
	return out, nil
}
