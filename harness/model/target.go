package model

import (
	"pgregory.net/rapid"
)

// Target is a schema position reached by a random walk from the root: a leaf, leaf-list, container,
// whole list or list entry, together with its data-tree path.
type Target struct {
	Elems   []PElem
	Via     []*FieldInfo // fields crossed, the last one is the target field
	Keys    [][]Val      // key tuple per keyed list crossed (nil for a whole-list target's last list)
	F       *FieldInfo   // target field (nil = root)
	AtEntry bool         // target is a list entry (keys given) rather than the whole list
	Creates bool         // some container or entry on the way does not exist in the tree
	Exists  bool         // data exists at the target (leaf set / container present / entry present)
	Alt     int          // which path alternative of the leaf was used
}

// TargetOpts steers PickTarget.
type TargetOpts struct {
	Leaf      bool // stop only at leaves / leaf-lists
	NoKeyLeaf bool // never stop at a key leaf
	NewKeyPct int  // probability of addressing a not-yet-existing entry when descending into a list (default 35)
	ExistingOnly bool // only walk through existing data
	Gen       GenOpts
	AllowWholeList bool // may stop at a list without keys
	AllowOrdered   bool // may descend into / stop at ordered lists
	Skip      func(*FieldInfo) bool
}

// PickTarget walks from the root of m, choosing a field at each struct, and stops at a leaf
// (Leaf=true) or with some probability at any node.
func PickTarget(t *rapid.T, v *Variant, m *Node, o TargetOpts) *Target {
	if o.NewKeyPct == 0 {
		o.NewKeyPct = 35
	}
	o.Gen.defaults()
	tg := &Target{Exists: true}
	si, cur := v.Root, m
	for depth := 0; depth < 12; depth++ {
		var cands []*FieldInfo
		for _, f := range si.Fields {
			if f.Kind == FUList || (o.Skip != nil && o.Skip(f)) {
				continue
			}
			if f.Kind == FOrdList && !o.AllowOrdered {
				continue
			}
			if o.NoKeyLeaf && f.IsKey {
				continue
			}
			if o.ExistingOnly && (cur == nil || !fieldPopulated(cur, f)) {
				continue
			}
			cands = append(cands, f)
			if f.Kind != FLeaf && f.Kind != FLeafList {
				// structure is reached more often than any single leaf, so that deep positions and
				// every list (hence every key type) occur with useful frequency
				cands = append(cands, f, f, f, f)
			}
		}
		if len(cands) == 0 {
			if tg.F == nil || o.Leaf {
				return nil
			}
			return tg
		}
		// prefer populated fields so that walks reach existing data often
		var pop []*FieldInfo
		if cur != nil {
			for _, f := range cands {
				if fieldPopulated(cur, f) {
					pop = append(pop, f)
				}
			}
		}
		var f *FieldInfo
		if len(pop) > 0 && rapid.IntRange(0, 9).Draw(t, "tg.pop") < 6 {
			f = pop[rapid.IntRange(0, len(pop)-1).Draw(t, "tg.field")]
		} else {
			f = cands[rapid.IntRange(0, len(cands)-1).Draw(t, "tg.field")]
		}
		tg.Via = append(tg.Via, f)
		tg.F = f
		tg.AtEntry = false
		switch f.Kind {
		case FLeaf, FLeafList:
			tg.Alt = rapid.IntRange(0, len(f.Paths)-1).Draw(t, "tg.alt")
			tg.Elems = appendPath(tg.Elems, f.Paths[tg.Alt])
			tg.Exists = cur != nil && fieldPopulated(cur, f)
			if cur == nil {
				tg.Creates = true
			}
			return tg
		case FCont:
			tg.Elems = appendPath(tg.Elems, f.Paths[0])
			var next *Node
			if cur != nil {
				next = cur.Cont[f.Name]
			}
			if next == nil {
				tg.Creates, tg.Exists = true, false
			}
			cur, si = next, f.Child
			if !o.Leaf && rapid.IntRange(0, 9).Draw(t, "tg.stop") < 3 {
				return tg
			}
		case FList, FOrdList:
			var ents []*Entry
			if cur != nil {
				ents = cur.List[f.Name]
			}
			if !o.Leaf && o.AllowWholeList && rapid.IntRange(0, 9).Draw(t, "tg.wholelist") < 2 {
				tg.Elems = appendPath(tg.Elems, f.Paths[0])
				tg.Keys = append(tg.Keys, nil)
				tg.Exists = len(ents) > 0
				return tg
			}
			var e *Entry
			if len(ents) > 0 && (o.ExistingOnly || rapid.IntRange(0, 99).Draw(t, "tg.newkey") >= o.NewKeyPct) {
				e = ents[rapid.IntRange(0, len(ents)-1).Draw(t, "tg.entry")]
			}
			var key []Val
			var next *Node
			if e != nil {
				key, next = e.Key, e.N
			} else {
				if o.ExistingOnly {
					return nil
				}
				ne := GenEntry(t, f, GenOpts{Sparse: true, Avoid: o.Gen.Avoid, Rare: o.Gen.Rare, Skip: func(*FieldInfo) bool { return true }}, ents)
				if ne == nil {
					return nil
				}
				key = ne.Key
				tg.Creates, tg.Exists = true, false
			}
			tg.Elems = EntryElems(tg.Elems, f, 0, key)
			tg.Keys = append(tg.Keys, key)
			tg.AtEntry = true
			cur, si = next, f.Child
			if !o.Leaf && rapid.IntRange(0, 9).Draw(t, "tg.stop") < 3 {
				return tg
			}
		}
	}
	return nil
}

func fieldPopulated(n *Node, f *FieldInfo) bool {
	switch f.Kind {
	case FLeaf:
		_, ok := n.Leaf[f.Name]
		return ok
	case FLeafList:
		return len(n.LL[f.Name]) > 0
	case FCont:
		_, ok := n.Cont[f.Name]
		return ok
	case FList, FOrdList:
		return len(n.List[f.Name]) > 0
	case FUList:
		return len(n.UList[f.Name]) > 0
	}
	return false
}

// Ensure walks the tree along tg creating the containers and list entries gNMI path traversal with
// InitMissingElements creates (entries get just their key leaves) and returns the node that owns
// the target field. For entry targets the entry's node is returned.
func Ensure(root *Node, tg *Target) *Node {
	cur := root
	ki := 0
	for i, f := range tg.Via {
		last := i == len(tg.Via)-1
		switch f.Kind {
		case FLeaf, FLeafList:
			return cur
		case FCont:
			c := cur.Cont[f.Name]
			if c == nil {
				c = NewNode(f.Child)
				cur.Cont[f.Name] = c
			}
			cur = c
		case FList, FOrdList:
			key := tg.Keys[ki]
			ki++
			if key == nil {
				return cur
			}
			var hit *Entry
			for _, e := range cur.List[f.Name] {
				if KeyLoose(e.Key) == KeyLoose(key) {
					hit = e
				}
			}
			if hit == nil {
				n := NewNode(f.Child)
				for j, kf := range f.KeyFields {
					n.Leaf[kf.Name] = key[j]
				}
				hit = &Entry{Key: key, N: n}
				cur.List[f.Name] = append(cur.List[f.Name], hit)
			}
			cur = hit.N
			_ = last
		}
	}
	return cur
}

// Find walks the tree along tg without creating anything; it returns the node that owns the target
// field (or the entry node for entry targets) or nil when some element on the way is absent.
func Find(root *Node, tg *Target) (owner *Node, parent *Node, entry *Entry) {
	cur := root
	ki := 0
	for i, f := range tg.Via {
		last := i == len(tg.Via)-1
		if cur == nil {
			return nil, nil, nil
		}
		switch f.Kind {
		case FLeaf, FLeafList:
			return cur, cur, nil
		case FCont:
			if last {
				return cur.Cont[f.Name], cur, nil
			}
			cur = cur.Cont[f.Name]
		case FList, FOrdList:
			key := tg.Keys[ki]
			ki++
			if key == nil {
				return cur, cur, nil
			}
			var hit *Entry
			for _, e := range cur.List[f.Name] {
				if KeyLoose(e.Key) == KeyLoose(key) {
					hit = e
				}
			}
			if last {
				if hit == nil {
					return nil, cur, nil
				}
				return hit.N, cur, hit
			}
			if hit == nil {
				return nil, nil, nil
			}
			cur = hit.N
		}
	}
	return cur, nil, nil
}
