package model

import (
	"fmt"
	"reflect"
	"unsafe"

	"github.com/openconfig/ygot/ygot"
)

// Build constructs a fresh GoStruct from the model tree by reflection. Two calls return trees that
// share no memory. No ygot routine is involved except the generated To_<Union> constructors (wrapper
// unions only) and the generated ordered-map Append.
func Build(n *Node) ygot.GoStruct {
	v := buildStruct(n, nil)
	return v.Interface().(ygot.GoStruct)
}

// BuildShared is Build for a caller who reuses values: scalar leaves of one Go pointer type that hold
// equal values point to ONE variable (as in `s := ygot.String("x"); a.X = s; b.Y = s`). The tree holds
// the same data as Build(n); writing one leaf through the library must still not change the others.
func BuildShared(n *Node) ygot.GoStruct {
	v := buildStruct(n, map[string]reflect.Value{})
	return v.Interface().(ygot.GoStruct)
}

// BuildOpts tunes Build for fault injection.
type BuildOpts struct{}

func buildStruct(n *Node, shared map[string]reflect.Value) reflect.Value {
	si := n.SI
	pv := reflect.New(si.T)
	sv := pv.Elem()
	for _, f := range si.Fields {
		fv := sv.Field(f.Index)
		switch f.Kind {
		case FLeaf:
			if v, ok := n.Leaf[f.Name]; ok {
				gv := GoValue(si.V, f, fv.Type(), v, false)
				if shared != nil && gv.Kind() == reflect.Ptr && !gv.IsNil() && gv.Type().Elem().Kind() != reflect.Struct {
					k := gv.Type().String() + "|" + v.LooseCanon()
					if o, ok := shared[k]; ok {
						gv = o
					} else {
						shared[k] = gv
					}
				}
				fv.Set(gv)
			}
		case FLeafList:
			l, ok := n.LL[f.Name]
			if !ok {
				if n.EmptyLL[f.Name] {
					fv.Set(reflect.MakeSlice(fv.Type(), 0, 0))
				}
				continue
			}
			s := reflect.MakeSlice(fv.Type(), len(l), len(l))
			for i, v := range l {
				s.Index(i).Set(GoValue(si.V, f, fv.Type().Elem(), v, true))
			}
			fv.Set(s)
		case FCont:
			if c, ok := n.Cont[f.Name]; ok {
				fv.Set(buildStruct(c, shared))
			}
		case FList:
			l, ok := n.List[f.Name]
			if !ok {
				continue
			}
			m := reflect.MakeMapWithSize(fv.Type(), len(l))
			for _, e := range l {
				m.SetMapIndex(GoKey(f, e.Key), buildStruct(e.N, shared))
			}
			fv.Set(m)
		case FOrdList:
			l, ok := n.List[f.Name]
			if !ok {
				continue
			}
			om := reflect.New(fv.Type().Elem())
			app := om.MethodByName("Append")
			for _, e := range l {
				r := app.Call([]reflect.Value{buildStruct(e.N, shared)})
				if !r[0].IsNil() {
					panic(fmt.Sprintf("HARNESS-BUG: ordered map Append failed for %s key %s: %v", f.Name, KeyCanon(e.Key), r[0].Interface()))
				}
			}
			fv.Set(om)
		case FUList:
			l, ok := n.UList[f.Name]
			if !ok {
				continue
			}
			s := reflect.MakeSlice(fv.Type(), len(l), len(l))
			for i, e := range l {
				s.Index(i).Set(buildStruct(e, shared))
			}
			fv.Set(s)
		}
	}
	return pv
}

// GoKey builds the Go map key (scalar or key struct) for key tuple k of list field f.
func GoKey(f *FieldInfo, k []Val) reflect.Value {
	kt := f.KeyType
	if len(f.KeyFields) == 1 && !(kt.Kind() == reflect.Struct && isKeyStruct(kt)) {
		return GoValue(f.Owner.V, f.KeyFields[0], kt, k[0], true)
	}
	kv := reflect.New(kt).Elem()
	for i, kn := range f.KeyNames {
		for j := 0; j < kt.NumField(); j++ {
			if kt.Field(j).Tag.Get("path") == kn {
				kv.Field(j).Set(GoValue(f.Owner.V, f.KeyFields[i], kt.Field(j).Type, k[i], true))
			}
		}
	}
	return kv
}

var keyStructT = reflect.TypeOf((*ygot.GoKeyStruct)(nil)).Elem()

func isKeyStruct(t reflect.Type) bool {
	_, ok := t.MethodByName("IsYANGGoKeyStruct")
	return ok
}

// GoValue converts v to a Go value assignable to target type tt (the field type for leaves: pointer to
// scalar, enum, Binary, YANGEmpty or union interface; with elem=true the element/key type: plain
// scalar instead of pointer).
func GoValue(vr *Variant, f *FieldInfo, tt reflect.Type, v Val, elem bool) reflect.Value {
	switch tt.Kind() {
	case reflect.Ptr:
		p := reflect.New(tt.Elem())
		setScalar(p.Elem(), v)
		return p
	case reflect.Interface:
		return unionValue(vr, f, tt, v)
	case reflect.Slice: // Binary
		b := reflect.MakeSlice(tt, len(v.B), binCap(v.B))
		reflect.Copy(b, reflect.ValueOf(v.B))
		return b
	}
	x := reflect.New(tt).Elem()
	setScalar(x, v)
	return x
}

func setScalar(x reflect.Value, v Val) {
	switch x.Kind() {
	case reflect.Int8, reflect.Int16, reflect.Int32, reflect.Int64, reflect.Int:
		x.SetInt(v.I)
	case reflect.Uint8, reflect.Uint16, reflect.Uint32, reflect.Uint64, reflect.Uint:
		x.SetUint(v.U)
	case reflect.Float64:
		x.SetFloat(v.F)
	case reflect.String:
		x.SetString(v.S)
	case reflect.Bool:
		if v.K == KEmpty {
			x.SetBool(true)
		} else {
			x.SetBool(v.Bool)
		}
	case reflect.Slice:
		b := reflect.MakeSlice(x.Type(), len(v.B), binCap(v.B))
		reflect.Copy(b, reflect.ValueOf(v.B))
		x.Set(b)
	default:
		panic(fmt.Sprintf("HARNESS-BUG: cannot set %s from %s", x.Type(), v))
	}
}

var unionScalarName = map[Kind]string{KInt8: "UnionInt8", KInt16: "UnionInt16", KInt32: "UnionInt32", KInt64: "UnionInt64",
	KUint8: "UnionUint8", KUint16: "UnionUint16", KUint32: "UnionUint32", KUint64: "UnionUint64",
	KDec: "UnionFloat64", KStr: "UnionString", KBool: "UnionBool"}

// unionValue builds the Go value of a union-typed leaf.
func unionValue(vr *Variant, f *FieldInfo, ut reflect.Type, v Val) reflect.Value {
	if !vr.Wrapper {
		var x reflect.Value
		switch v.K {
		case KEnum:
			x = reflect.New(v.ET).Elem()
			x.SetInt(v.I)
		case KBin:
			x = reflect.MakeSlice(vr.BinaryType, len(v.B), binCap(v.B))
			reflect.Copy(x, reflect.ValueOf(v.B))
		case KEmpty:
			x = reflect.New(vr.EmptyType).Elem()
			x.SetBool(true)
		default:
			name := unionScalarName[v.K]
			for _, t := range vr.UnionScalars {
				if t.Name() == name {
					x = reflect.New(t).Elem()
					setScalar(x, v)
				}
			}
		}
		if !x.IsValid() || !x.Type().Implements(ut) {
			panic(fmt.Sprintf("HARNESS-BUG: value %s does not fit simple union %s", v, ut))
		}
		r := reflect.New(ut).Elem()
		r.Set(x)
		return r
	}
	// wrapper unions: the generated To_<Union>(raw) constructor
	owner, ok := vr.toFuncs[ut.Name()]
	if !ok {
		panic("HARNESS-BUG: no To_ constructor for " + ut.Name())
	}
	var raw reflect.Value
	switch v.K {
	case KEnum:
		raw = reflect.New(v.ET).Elem()
		raw.SetInt(v.I)
	case KBin:
		raw = reflect.MakeSlice(vr.BinaryType, len(v.B), binCap(v.B))
		reflect.Copy(raw, reflect.ValueOf(v.B))
	case KInt8:
		raw = reflect.ValueOf(int8(v.I))
	case KInt16:
		raw = reflect.ValueOf(int16(v.I))
	case KInt32:
		raw = reflect.ValueOf(int32(v.I))
	case KInt64:
		raw = reflect.ValueOf(v.I)
	case KUint8:
		raw = reflect.ValueOf(uint8(v.U))
	case KUint16:
		raw = reflect.ValueOf(uint16(v.U))
	case KUint32:
		raw = reflect.ValueOf(uint32(v.U))
	case KUint64:
		raw = reflect.ValueOf(v.U)
	case KDec:
		raw = reflect.ValueOf(v.F)
	case KStr:
		raw = reflect.ValueOf(v.S)
	case KBool:
		raw = reflect.ValueOf(v.Bool)
	default:
		panic("HARNESS-BUG: wrapper union of kind " + v.K.String())
	}
	out := reflect.New(owner).MethodByName("To_" + ut.Name()).Call([]reflect.Value{raw})
	if !out[1].IsNil() {
		panic(fmt.Sprintf("HARNESS-BUG: To_%s(%s): %v", ut.Name(), v, out[1].Interface()))
	}
	return out[0]
}

// unexported returns an addressable, settable view of an unexported struct field.
func unexported(f reflect.Value) reflect.Value {
	return reflect.NewAt(f.Type(), unsafe.Pointer(f.UnsafeAddr())).Elem()
}

// binCap is the capacity binary values are built with: a zero-length value gets spare capacity, the way a
// caller that reuses a buffer (buf[:0]) holds it, so that code which keeps the slice header instead of
// copying it shares memory that a later append writes to.
func binCap(b []byte) int {
	if len(b) == 0 {
		return 8
	}
	return len(b)
}
