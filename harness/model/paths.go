package model

import (
	"sort"
	"strconv"
	"strings"

	"pgregory.net/rapid"
)

// PElem is one data-tree path element: a node name and, for list entries, the key values.
type PElem struct {
	Name string
	Keys map[string]Val // nil for non-list elements
}

// Inst is one leaf (or leaf-list) instance of a tree with one of its data-tree paths.
type Inst struct {
	Elems  []PElem
	F      *FieldInfo
	Owner  *Node
	V      Val   // leaf value
	LL     []Val // leaf-list values (F.Kind == FLeafList)
	Alt    int   // which path alternative this is
	Shadow bool
}

// ElemsID renders path elements canonically (keys sorted by name, values in loose canonical form).
func ElemsID(el []PElem) string {
	var sb strings.Builder
	for _, e := range el {
		sb.WriteByte('/')
		sb.WriteString(e.Name)
		if e.Keys != nil {
			for _, k := range sortedKeys(e.Keys) {
				sb.WriteString("[" + k + "=" + strconv.Quote(e.Keys[k].LooseCanon()) + "]")
			}
		}
	}
	return sb.String()
}

// ID is the canonical identifier of the instance's path.
func (i Inst) ID() string { return ElemsID(i.Elems) }

func appendPath(base []PElem, p []string) []PElem {
	out := make([]PElem, len(base), len(base)+len(p))
	copy(out, base)
	for _, s := range p {
		out = append(out, PElem{Name: s})
	}
	return out
}

// EntryElems returns the path elements of a list entry: list path with keys on the last element.
func EntryElems(base []PElem, f *FieldInfo, alt int, key []Val) []PElem {
	el := appendPath(base, f.Paths[alt])
	ks := map[string]Val{}
	for i, kn := range f.KeyNames {
		if i < len(key) {
			ks[kn] = key[i]
		}
	}
	el[len(el)-1].Keys = ks
	return el
}

// InstOpts selects which instances to enumerate.
type InstOpts struct {
	AllAlts bool // every alternative of a path tag (default: first only)
}

// Instances enumerates all leaf and leaf-list instances below n (whose own path is base).
func Instances(n *Node, base []PElem, o InstOpts) []Inst {
	var out []Inst
	collect(n, base, o, &out)
	return out
}

func collect(n *Node, base []PElem, o InstOpts, out *[]Inst) {
	if n == nil {
		return
	}
	for _, f := range n.SI.Fields {
		alts := 1
		if o.AllAlts {
			alts = len(f.Paths)
		}
		switch f.Kind {
		case FLeaf:
			if v, ok := n.Leaf[f.Name]; ok {
				for a := 0; a < alts; a++ {
					*out = append(*out, Inst{Elems: appendPath(base, f.Paths[a]), F: f, Owner: n, V: v, Alt: a})
				}
			}
		case FLeafList:
			if l := n.LL[f.Name]; len(l) > 0 {
				for a := 0; a < alts; a++ {
					*out = append(*out, Inst{Elems: appendPath(base, f.Paths[a]), F: f, Owner: n, LL: l, Alt: a})
				}
			}
		case FCont:
			if c, ok := n.Cont[f.Name]; ok {
				collect(c, appendPath(base, f.Paths[0]), o, out)
			}
		case FList, FOrdList:
			for _, e := range n.List[f.Name] {
				collect(e.N, EntryElems(base, f, 0, e.Key), o, out)
			}
		case FUList:
			// unkeyed list entries have no addressable path; give each a positional pseudo-key
			for i, e := range n.UList[f.Name] {
				el := appendPath(base, f.Paths[0])
				el[len(el)-1].Keys = map[string]Val{"#": {K: KUint32, U: uint64(i)}}
				collect(e, el, o, out)
			}
		}
	}
}

// LeafMap is the path view of a tree: canonical path id -> canonical value text.
// Leaf-lists are rendered as the sequence of their values.
func LeafMap(n *Node, o InstOpts) map[string]string {
	m := map[string]string{}
	for _, in := range Instances(n, nil, o) {
		m[in.ID()] = in.ValueCanon()
	}
	return m
}

// ValueCanon renders the instance's value(s) (loose: no Go enum type names).
func (i Inst) ValueCanon() string {
	if i.F.Kind == FLeafList {
		p := make([]string, len(i.LL))
		for k, v := range i.LL {
			p[k] = v.LooseCanon()
		}
		return "[" + strings.Join(p, " ") + "]"
	}
	return i.V.LooseCanon()
}

// ---- leafref evaluation on the model ---------------------------------------------------------------

// leafrefTargetHook, when set, sees every instance selected by LeafrefTargets (used by LeafrefTargetInsts).
var leafrefTargetHook func(Inst)

// LeafrefTargetInsts returns the instances that the leafref path of in selects (not safe for concurrent use).
func LeafrefTargetInsts(all []Inst, in Inst) []Inst {
	var out []Inst
	leafrefTargetHook = func(c Inst) { out = append(out, c) }
	defer func() { leafrefTargetHook = nil }()
	LeafrefTargets(all, in)
	return out
}

// LeafrefTargets evaluates the leafref path of instance in (a leaf whose schema type is a leafref)
// against all instances of the tree and returns the loose canonical values of the selected node set.
func LeafrefTargets(all []Inst, in Inst) map[string]Val {
	lp := ParseLeafrefPath(in.F.Type.Leafref)
	var cur []PElem
	if !lp.Absolute {
		cur = append(cur, in.Elems...)
	}
	for _, st := range lp.Steps {
		if st.Up {
			if len(cur) == 0 {
				return nil
			}
			cur = cur[:len(cur)-1]
			continue
		}
		el := PElem{Name: st.Name}
		if st.PredKey != "" {
			// evaluate current()/rel
			ref := append([]PElem(nil), in.Elems...)
			for _, r := range st.PredRel {
				if r == ".." {
					if len(ref) == 0 {
						return nil
					}
					ref = ref[:len(ref)-1]
				} else {
					ref = append(ref, PElem{Name: r})
				}
			}
			id := ElemsID(ref)
			var pv *Val
			for i := range all {
				if all[i].F.Kind == FLeaf && all[i].ID() == id {
					v := all[i].V
					pv = &v
					break
				}
			}
			if pv == nil {
				return nil
			}
			el.Keys = map[string]Val{st.PredKey: *pv}
		}
		cur = append(append([]PElem(nil), cur...), el)
	}
	out := map[string]Val{}
	for _, c := range all {
		if !matchPattern(cur, c.Elems) {
			continue
		}
		if leafrefTargetHook != nil {
			leafrefTargetHook(c)
		}
		if c.F.Kind == FLeafList {
			for _, v := range c.LL {
				out[v.LooseCanon()] = v
			}
		} else {
			out[c.V.LooseCanon()] = c.V
		}
	}
	return out
}

func matchPattern(pat, el []PElem) bool {
	if len(pat) != len(el) {
		return false
	}
	for i := range pat {
		if pat[i].Name != el[i].Name {
			return false
		}
		for k, v := range pat[i].Keys {
			ev, ok := el[i].Keys[k]
			if !ok || ev.LooseCanon() != v.LooseCanon() {
				return false
			}
		}
	}
	return true
}

// LRMode says how FixLeafrefs settles leafref leaves.
type LRMode int

const (
	LRSatisfy LRMode = iota // every leafref leaf points at an existing value (or is unset)
	LRFree                  // leave generated values alone
)

// Dangling returns the ids of leafref leaf instances whose value is not in their target node set.
func Dangling(n *Node) []string {
	all := Instances(n, nil, InstOpts{AllAlts: true})
	var out []string
	for _, in := range all {
		if in.F.Type == nil || in.F.Type.Leafref == "" || in.Alt != 0 {
			continue
		}
		tg := LeafrefTargets(all, in)
		if in.F.Kind == FLeafList {
			for _, v := range in.LL {
				if _, ok := tg[v.LooseCanon()]; !ok {
					out = append(out, in.ID()+"="+v.LooseCanon())
				}
			}
		} else if _, ok := tg[in.V.LooseCanon()]; !ok {
			out = append(out, in.ID()+"="+in.V.LooseCanon())
		}
	}
	sort.Strings(out)
	return out
}

// FixLeafrefs makes every leafref leaf of the tree satisfied: lists keyed by a leafref that points
// outside the entry are re-keyed from the target set (or emptied), then leafref leaves are re-pointed
// at an existing target value or unset. Several rounds handle leafrefs that depend on each other.
func FixLeafrefs(t *rapid.T, v *Variant, root *Node, mode LRMode) {
	if mode == LRFree {
		return
	}
	for round := 0; round < 4; round++ {
		changed := false
		protected := map[*Node][]string{}
		all := Instances(root, nil, InstOpts{AllAlts: true})
		// 1. re-key lists whose key is a leafref leaving the entry
		var walk func(n *Node, base []PElem)
		walk = func(n *Node, base []PElem) {
			for _, f := range n.SI.Fields {
				switch f.Kind {
				case FCont:
					if c := n.Cont[f.Name]; c != nil {
						walk(c, appendPath(base, f.Paths[0]))
					}
				case FList, FOrdList:
					ents := n.List[f.Name]
					for ki, kf := range f.KeyFields {
						refF, rel := keyExternalRef(f, kf)
						if refF == nil {
							continue
						}
						seen := map[string]bool{}
						var keep []*Entry
						for _, e := range ents {
							in := Inst{Elems: appendPath(EntryElems(base, f, 0, e.Key), rel), F: refF, V: e.Key[ki]}
							tg := LeafrefTargets(all, in)
							if _, ok := tg[e.Key[ki].LooseCanon()]; !ok {
								// pick a replacement key from the target set
								cands := sortedKeys(tg)
								if len(cands) == 0 {
									changed = true
									continue
								}
								pv := tg[cands[rapid.IntRange(0, len(cands)-1).Draw(t, "rekey")]]
								pv.ET = e.Key[ki].ET
								e.Key[ki] = pv
								e.N.Leaf[kf.Name] = pv
								AlignKeyTargets(f, e.N, e.Key)
								changed = true
							}
							kc := KeyLoose(e.Key)
							if seen[kc] {
								changed = true
								continue
							}
							seen[kc] = true
							keep = append(keep, e)
						}
						ents = keep
					}
					for _, e := range ents {
						for _, kf := range f.KeyFields {
							if o, tf := keyAlignedTarget(e.N, kf); tf != nil {
								protected[o] = append(protected[o], tf.Name)
							}
						}
					}
					if len(ents) == 0 {
						delete(n.List, f.Name)
					} else {
						n.List[f.Name] = ents
					}
					for _, e := range ents {
						walk(e.N, EntryElems(base, f, 0, e.Key))
					}
				case FUList:
					for i, e := range n.UList[f.Name] {
						el := appendPath(base, f.Paths[0])
						el[len(el)-1].Keys = map[string]Val{"#": {K: KUint32, U: uint64(i)}}
						walk(e, el)
					}
				}
			}
		}
		walk(root, nil)
		// 2. non-key leafref leaves
		all = Instances(root, nil, InstOpts{AllAlts: true})
		for _, in := range all {
			if in.F.Type == nil || in.F.Type.Leafref == "" || in.Alt != 0 || in.F.IsKey || hasStr(protected[in.Owner], in.F.Name) {
				continue
			}
			tg := LeafrefTargets(all, in)
			cands := sortedKeys(tg)
			if in.F.Kind == FLeafList {
				var nl []Val
				seen := map[string]bool{}
				for _, x := range in.LL {
					if _, ok := tg[x.LooseCanon()]; ok && !seen[x.LooseCanon()] {
						nl = append(nl, x)
						seen[x.LooseCanon()] = true
					} else if len(cands) > 0 {
						c := tg[cands[rapid.IntRange(0, len(cands)-1).Draw(t, "relref")]]
						if !seen[c.LooseCanon()] {
							c.ET = x.ET
							nl = append(nl, c)
							seen[c.LooseCanon()] = true
						}
						changed = true
					} else {
						changed = true
					}
				}
				if len(nl) == 0 {
					delete(in.Owner.LL, in.F.Name)
				} else {
					in.Owner.LL[in.F.Name] = nl
				}
				continue
			}
			if _, ok := tg[in.V.LooseCanon()]; ok {
				continue
			}
			changed = true
			if len(cands) == 0 {
				delete(in.Owner.Leaf, in.F.Name)
				continue
			}
			c := tg[cands[rapid.IntRange(0, len(cands)-1).Draw(t, "relref")]]
			c.ET = in.V.ET
			in.Owner.Leaf[in.F.Name] = c
		}
		if !changed {
			return
		}
	}
	// could not converge: drop every still-dangling non-key leafref
	all := Instances(root, nil, InstOpts{AllAlts: true})
	for _, in := range all {
		if in.F.Type == nil || in.F.Type.Leafref == "" || in.Alt != 0 || in.F.IsKey {
			continue
		}
		tg := LeafrefTargets(all, in)
		if in.F.Kind == FLeaf {
			if _, ok := tg[in.V.LooseCanon()]; !ok {
				delete(in.Owner.Leaf, in.F.Name)
			}
		} else {
			delete(in.Owner.LL, in.F.Name)
		}
	}
}

// leavesEntry reports whether a key's leafref path points outside its own list entry.
func leavesEntry(path string) bool {
	lp := ParseLeafrefPath(path)
	if lp.Absolute {
		return true
	}
	ups := 0
	for _, s := range lp.Steps {
		if s.Up {
			ups++
		}
	}
	return ups > 1
}

func hasStr(l []string, s string) bool {
	for _, x := range l {
		if x == s {
			return true
		}
	}
	return false
}

// keyInEntryRel returns the in-entry relative path a key leafref points to (nil if none).
func keyInEntryRel(kf *FieldInfo) []string {
	if kf.Type == nil || kf.Type.Leafref == "" || leavesEntry(kf.Type.Leafref) {
		return nil
	}
	lp := ParseLeafrefPath(kf.Type.Leafref)
	var rel []string
	for _, s := range lp.Steps {
		if !s.Up {
			rel = append(rel, s.Name)
		}
	}
	return rel
}

// findRelField finds the leaf field at schema path rel below struct si.
func findRelField(si *StructInfo, rel []string) *FieldInfo {
	for _, f := range si.Fields {
		for _, p := range f.Paths {
			if len(p) > len(rel) || !eqStrs(p, rel[:len(p)]) {
				continue
			}
			if f.Kind == FLeaf && len(p) == len(rel) {
				return f
			}
			if f.Kind == FCont && len(p) < len(rel) {
				if r := findRelField(f.Child, rel[len(p):]); r != nil {
					return r
				}
			}
		}
	}
	return nil
}

// keyExternalRef returns the leafref-typed field (and its path relative to the entry) whose target
// set constrains key kf of list f from outside the entry: the key itself when its leafref leaves the
// entry, or the in-entry leaf it points to when that one is a leafref in turn.
func keyExternalRef(f *FieldInfo, kf *FieldInfo) (*FieldInfo, []string) {
	if kf.Type == nil || kf.Type.Leafref == "" {
		return nil, nil
	}
	if leavesEntry(kf.Type.Leafref) {
		return kf, kf.Paths[len(kf.Paths)-1]
	}
	rel := keyInEntryRel(kf)
	tf := findRelField(f.Child, rel)
	if tf != nil && tf != kf && tf.Type.Leafref != "" && leavesEntry(tf.Type.Leafref) {
		return tf, rel
	}
	return nil, nil
}

// keyAlignedTarget returns the node and field of the in-entry leaf a key leafref is aligned with.
func keyAlignedTarget(n *Node, kf *FieldInfo) (*Node, *FieldInfo) {
	rel := keyInEntryRel(kf)
	if rel == nil {
		return nil, nil
	}
	cur := n
	for len(rel) > 0 {
		var next *Node
		for _, f := range cur.SI.Fields {
			for _, p := range f.Paths {
				if len(p) > len(rel) || !eqStrs(p, rel[:len(p)]) {
					continue
				}
				if f.Kind == FLeaf && len(p) == len(rel) {
					if f == kf {
						return nil, nil
					}
					return cur, f
				}
				if f.Kind == FCont && len(p) < len(rel) && cur.Cont[f.Name] != nil {
					next = cur.Cont[f.Name]
					rel = rel[len(p):]
				}
			}
			if next != nil {
				break
			}
		}
		if next == nil {
			return nil, nil
		}
		cur = next
	}
	return nil, nil
}
