package model

import (
	"math"
	"strconv"
	"strings"

	gpb "github.com/openconfig/gnmi/proto/gnmi"
)

// KeyString is the harness's rendering of a list key value inside a gNMI path: the RFC 7950
// canonical lexical form (identityrefs by bare name).
func KeyString(v Val) string { return v.Lexical() }

// PathProto converts path elements to a gNMI path (PathElem form).
func PathProto(el []PElem) *gpb.Path {
	p := &gpb.Path{}
	for _, e := range el {
		pe := &gpb.PathElem{Name: e.Name}
		if len(e.Keys) > 0 {
			pe.Key = map[string]string{}
			for k, v := range e.Keys {
				pe.Key[k] = KeyString(v)
			}
		}
		p.Elem = append(p.Elem, pe)
	}
	return p
}

// ScalarTV encodes one value as the scalar TypedValue the gNMI specification prescribes for it.
func ScalarTV(v Val) *gpb.TypedValue {
	switch {
	case v.K.Signed():
		return &gpb.TypedValue{Value: &gpb.TypedValue_IntVal{IntVal: v.I}}
	case v.K.Unsigned():
		return &gpb.TypedValue{Value: &gpb.TypedValue_UintVal{UintVal: v.U}}
	}
	switch v.K {
	case KDec:
		return &gpb.TypedValue{Value: &gpb.TypedValue_DoubleVal{DoubleVal: v.F}}
	case KStr:
		return &gpb.TypedValue{Value: &gpb.TypedValue_StringVal{StringVal: v.S}}
	case KBool:
		return &gpb.TypedValue{Value: &gpb.TypedValue_BoolVal{BoolVal: v.Bool}}
	case KEmpty:
		return &gpb.TypedValue{Value: &gpb.TypedValue_BoolVal{BoolVal: true}}
	case KBin:
		return &gpb.TypedValue{Value: &gpb.TypedValue_BytesVal{BytesVal: append([]byte{}, v.B...)}}
	case KEnum:
		return &gpb.TypedValue{Value: &gpb.TypedValue_StringVal{StringVal: v.S}}
	}
	panic("HARNESS-BUG: ScalarTV of " + v.Canon())
}

// LeafListTV encodes a leaf-list as leaflist_val.
func LeafListTV(l []Val) *gpb.TypedValue {
	arr := &gpb.ScalarArray{}
	for _, v := range l {
		arr.Element = append(arr.Element, ScalarTV(v))
	}
	return &gpb.TypedValue{Value: &gpb.TypedValue_LeaflistVal{LeaflistVal: arr}}
}

// JSONIETFTV wraps an RFC 7951 document as a json_ietf_val.
func JSONIETFTV(doc []byte) *gpb.TypedValue {
	return &gpb.TypedValue{Value: &gpb.TypedValue_JsonIetfVal{JsonIetfVal: doc}}
}

// DecodeTV decodes a scalar TypedValue emitted for a leaf of type lt (strict: the TypedValue kind
// must be the one the value kind maps to).
func DecodeTV(lt *LType, tv *gpb.TypedValue) (Val, error) {
	if tv == nil {
		return Val{}, errf("nil TypedValue")
	}
	if lt.IsUnion() {
		var first error
		for _, m := range lt.Members {
			v, err := DecodeTV(m, tv)
			if err == nil {
				return v, nil
			}
			if first == nil {
				first = err
			}
		}
		return Val{}, errf("no union member decodes %v: %v", tv, first)
	}
	k := lt.VKind()
	switch x := tv.Value.(type) {
	case *gpb.TypedValue_IntVal:
		if k.Signed() {
			lo, hi := kindBounds(k)
			if x.IntVal < lo.Int64() || x.IntVal > hi.Int64() {
				return Val{}, errf("int_val %d out of range for %s", x.IntVal, k)
			}
			return Val{K: k, I: x.IntVal}, nil
		}
	case *gpb.TypedValue_UintVal:
		if k.Unsigned() {
			_, hi := kindBounds(k)
			if x.UintVal > hi.Uint64() {
				return Val{}, errf("uint_val %d out of range for %s", x.UintVal, k)
			}
			return Val{K: k, U: x.UintVal}, nil
		}
	case *gpb.TypedValue_DoubleVal:
		if k == KDec {
			return Val{K: KDec, F: x.DoubleVal, FD: lt.FD}, nil
		}
	case *gpb.TypedValue_FloatVal:
		if k == KDec {
			return Val{K: KDec, F: float64(x.FloatVal), FD: lt.FD}, nil
		}
	case *gpb.TypedValue_StringVal:
		switch k {
		case KStr:
			return Val{K: KStr, S: x.StringVal}, nil
		case KEnum:
			_, name := "", x.StringVal
			if lt.Ident {
				_, name = stripMod(x.StringVal)
			}
			for _, m := range lt.Enum {
				if m.Name == name {
					return EnumVal(lt, m), nil
				}
			}
			return Val{}, errf("%q is not a member", x.StringVal)
		}
	case *gpb.TypedValue_BoolVal:
		switch k {
		case KBool:
			return Val{K: KBool, Bool: x.BoolVal}, nil
		case KEmpty:
			if x.BoolVal {
				return Val{K: KEmpty}, nil
			}
		}
	case *gpb.TypedValue_BytesVal:
		if k == KBin {
			return Val{K: KBin, B: append([]byte{}, x.BytesVal...)}, nil
		}
	}
	return Val{}, errf("TypedValue %v does not encode a %s", tv, lt.TypeName())
}

// DecodeLeafListTV decodes a leaflist_val.
func DecodeLeafListTV(lt *LType, tv *gpb.TypedValue) ([]Val, error) {
	ll, ok := tv.GetValue().(*gpb.TypedValue_LeaflistVal)
	if !ok {
		return nil, errf("TypedValue %v is not a leaflist_val", tv)
	}
	var out []Val
	for _, e := range ll.LeaflistVal.GetElement() {
		v, err := DecodeTV(lt, e)
		if err != nil {
			return nil, err
		}
		out = append(out, v)
	}
	return out, nil
}

// ParseKey decodes the string form of a list key of type lt (any member for unions, first match).
func ParseKey(lt *LType, s string) (Val, error) {
	if lt.IsUnion() {
		for _, m := range lt.Members {
			if v, err := ParseKey(m, s); err == nil {
				return v, nil
			}
		}
		return Val{}, errf("no union member accepts key %q", s)
	}
	k := lt.VKind()
	switch {
	case k.Signed() || k.Unsigned():
		return parseIntLex(lt, k, s)
	}
	switch k {
	case KDec:
		// tolerant: ygot writes decimal keys with %g; any finite float text identifies the value
		f, err := strconv.ParseFloat(s, 64)
		if err != nil || math.IsInf(f, 0) || math.IsNaN(f) {
			return Val{}, errf("cannot parse key %q as decimal64", s)
		}
		return Val{K: KDec, F: f, FD: lt.FD}, nil
	case KStr:
		return Val{K: KStr, S: s}, nil
	case KBool:
		if s == "true" || s == "false" {
			return Val{K: KBool, Bool: s == "true"}, nil
		}
	case KEnum:
		return ParseJSONValue(lt, s)
	case KBin:
		return ParseJSONValue(lt, s)
	}
	return Val{}, errf("cannot parse key %q as %s", s, lt.TypeName())
}

// Resolved is a gNMI path resolved against the struct tree of a variant.
type Resolved struct {
	Elems   []PElem      // with decoded key values
	Fields  []*FieldInfo // the field crossed at each step (containers, lists, final leaf)
	Keys    [][]Val      // per list field crossed: the key tuple (nil when no keys were given)
	Last    *FieldInfo   // field the path ends at (nil for the root)
	AtEntry bool         // path ends at a list entry (keys given) rather than the whole list
	Shadow  bool         // resolved through a shadow-path
}

// ID is the canonical id of the resolved path.
func (r *Resolved) ID() string { return ElemsID(r.Elems) }

// ResolvePath resolves a gNMI path against the variant's struct tree (schema only, no data).
func (v *Variant) ResolvePath(p *gpb.Path) (*Resolved, error) {
	v.MustInit()
	return resolveFrom(v.Root, p.GetElem())
}

func resolveFrom(si *StructInfo, el []*gpb.PathElem) (*Resolved, error) {
	r := &Resolved{}
	for len(el) > 0 {
		var hit *FieldInfo
		var hp []string
		shadow := false
		for _, f := range si.Fields {
			for _, alts := range [][][]string{f.Paths, f.Shadow} {
				for _, p := range alts {
					if len(p) > len(el) {
						continue
					}
					ok := true
					for i := range p {
						if el[i].Name != p[i] {
							ok = false
						}
					}
					// intermediate compressed-out elements carry no keys
					for i := 0; ok && i < len(p)-1; i++ {
						if len(el[i].Key) > 0 {
							ok = false
						}
					}
					if ok && (hit == nil || len(p) > len(hp)) {
						hit, hp = f, p
						shadow = len(f.Shadow) > 0 && sameAlts(alts, f.Shadow)
					}
				}
			}
		}
		if hit == nil {
			return nil, errf("no field of %s matches path element %q", si.T.Name(), el[0].Name)
		}
		r.Shadow = r.Shadow || shadow
		last := el[len(hp)-1]
		for _, s := range hp {
			r.Elems = append(r.Elems, PElem{Name: s})
		}
		r.Fields = append(r.Fields, hit)
		r.Last, r.AtEntry = hit, false
		el = el[len(hp):]
		switch hit.Kind {
		case FLeaf, FLeafList:
			if len(last.Key) > 0 {
				return nil, errf("keys on leaf element %q", last.Name)
			}
			if len(el) > 0 {
				return nil, errf("path continues below leaf %q", last.Name)
			}
			return r, nil
		case FCont:
			if len(last.Key) > 0 {
				return nil, errf("keys on container element %q", last.Name)
			}
			si = hit.Child
		case FList, FOrdList:
			if len(last.Key) == 0 {
				r.Keys = append(r.Keys, nil)
				if len(el) > 0 {
					return nil, errf("list %q without keys in the middle of a path", last.Name)
				}
				return r, nil
			}
			key := make([]Val, len(hit.KeyNames))
			ks := map[string]Val{}
			for i, kn := range hit.KeyNames {
				s, ok := last.Key[kn]
				if !ok {
					return nil, errf("list %q: key %q missing", last.Name, kn)
				}
				kv, err := ParseKey(hit.KeyFields[i].Type, s)
				if err != nil {
					return nil, errf("list %q key %q: %v", last.Name, kn, err)
				}
				key[i], ks[kn] = kv, kv
			}
			if len(last.Key) != len(hit.KeyNames) {
				return nil, errf("list %q: unexpected keys %v", last.Name, last.Key)
			}
			r.Elems[len(r.Elems)-1].Keys = ks
			r.Keys = append(r.Keys, key)
			r.AtEntry = true
			si = hit.Child
		case FUList:
			return nil, errf("unkeyed list %q is not addressable", last.Name)
		}
	}
	return r, nil
}

func sameAlts(a, b [][]string) bool {
	if len(a) != len(b) || len(a) == 0 {
		return false
	}
	return &a[0] == &b[0]
}

// PathString renders a gNMI path for messages (not the function under test in C08).
func PathString(p *gpb.Path) string {
	var sb strings.Builder
	for _, e := range p.GetElem() {
		sb.WriteString("/" + e.Name)
		for _, k := range sortedKeys(e.Key) {
			sb.WriteString("[" + k + "=" + e.Key[k] + "]")
		}
	}
	if sb.Len() == 0 {
		return "/"
	}
	return sb.String()
}

// Lookup walks the data tree along a resolved path and returns the node owning the last field
// (nil if some container / entry on the way is absent) and, for entry paths, the entry.
func Lookup(root *Node, r *Resolved) (owner *Node, entry *Entry) {
	cur := root
	ki := 0
	for i, f := range r.Fields {
		if cur == nil {
			return nil, nil
		}
		lastStep := i == len(r.Fields)-1
		switch f.Kind {
		case FLeaf, FLeafList:
			return cur, nil
		case FCont:
			if lastStep {
				return cur, nil
			}
			cur = cur.Cont[f.Name]
		case FList, FOrdList:
			key := r.Keys[ki]
			ki++
			if key == nil {
				return cur, nil
			}
			var hit *Entry
			for _, e := range cur.List[f.Name] {
				if KeyLoose(e.Key) == KeyLoose(key) {
					hit = e
				}
			}
			if lastStep {
				return cur, hit
			}
			if hit == nil {
				return nil, nil
			}
			cur = hit.N
		}
	}
	return cur, nil
}
