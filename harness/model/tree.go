package model

import (
	"fmt"
	"sort"
	"strings"
)

// Node is the abstract content of one generated struct instance, keyed by Go field name.
type Node struct {
	SI    *StructInfo
	Leaf  map[string]Val
	LL    map[string][]Val
	Cont  map[string]*Node
	List  map[string][]*Entry // keyed lists; sequence order is meaningful only for ordered lists
	UList map[string][]*Node
	// EmptyLL marks leaf-lists that are non-nil but empty in Go (only C02 distinguishes them).
	EmptyLL map[string]bool
}

// Entry is one keyed list entry: the map key (in key order) and the entry's content, whose key leaves
// are stored separately in N.Leaf so that disagreement between the two is representable.
type Entry struct {
	Key []Val
	N   *Node
}

// NewNode makes an empty node for si.
func NewNode(si *StructInfo) *Node {
	return &Node{SI: si, Leaf: map[string]Val{}, LL: map[string][]Val{}, Cont: map[string]*Node{},
		List: map[string][]*Entry{}, UList: map[string][]*Node{}, EmptyLL: map[string]bool{}}
}

// KeyCanon is the canonical text of a key tuple.
func KeyCanon(k []Val) string {
	p := make([]string, len(k))
	for i, v := range k {
		p[i] = v.Canon()
	}
	return strings.Join(p, ",")
}

// KeyLoose is KeyCanon without Go enum type names.
func KeyLoose(k []Val) string {
	p := make([]string, len(k))
	for i, v := range k {
		p[i] = v.LooseCanon()
	}
	return strings.Join(p, ",")
}

// DupListKeys reports whether some keyed list of the tree holds two entries with the same key tuple.
// An observed Go tree can be in that state when its map keys are pointers (wrapper-union keys); which of
// the two entries a later read or write reaches then depends on map iteration order.
func (n *Node) DupListKeys() bool {
	if n == nil {
		return false
	}
	for _, l := range n.List {
		seen := map[string]bool{}
		for _, e := range l {
			k := KeyLoose(e.Key)
			if seen[k] {
				return true
			}
			seen[k] = true
			if e.N.DupListKeys() {
				return true
			}
		}
	}
	for _, c := range n.Cont {
		if c.DupListKeys() {
			return true
		}
	}
	for _, l := range n.UList {
		for _, e := range l {
			if e.DupListKeys() {
				return true
			}
		}
	}
	return false
}

// IsEmpty reports whether the node holds no data at all (recursively: no leaves, no entries, and only
// empty non-presence containers). Presence containers count as data when countPresence is set.
func (n *Node) IsEmpty(countPresence bool) bool {
	if n == nil {
		return true
	}
	if len(n.Leaf) > 0 {
		return false
	}
	for _, l := range n.LL {
		if len(l) > 0 {
			return false
		}
	}
	for _, l := range n.List {
		if len(l) > 0 {
			return false
		}
	}
	for _, l := range n.UList {
		if len(l) > 0 {
			return false
		}
	}
	for name, c := range n.Cont {
		if countPresence && n.SI.ByName[name].Presence {
			return false
		}
		if !c.IsEmpty(countPresence) {
			return false
		}
	}
	return true
}

// Normalize removes empty leaf-lists, empty lists and empty non-presence containers, so that two
// trees that YANG cannot distinguish compare equal. It returns n.
func (n *Node) Normalize() *Node {
	if n == nil {
		return nil
	}
	for k, l := range n.LL {
		if len(l) == 0 {
			delete(n.LL, k)
		}
	}
	n.EmptyLL = map[string]bool{}
	for k, l := range n.List {
		if len(l) == 0 {
			delete(n.List, k)
		}
		for _, e := range l {
			e.N.Normalize()
		}
	}
	for k, l := range n.UList {
		if len(l) == 0 {
			delete(n.UList, k)
		}
		for _, e := range l {
			e.Normalize()
		}
	}
	for k, c := range n.Cont {
		c.Normalize()
		if !n.SI.ByName[k].Presence && c.IsEmpty(true) {
			delete(n.Cont, k)
		}
	}
	return n
}

// Clone deep-copies the model tree.
func (n *Node) Clone() *Node {
	if n == nil {
		return nil
	}
	c := NewNode(n.SI)
	for k, v := range n.Leaf {
		v.B = append([]byte(nil), v.B...)
		if n.Leaf[k].B == nil {
			v.B = nil
		}
		c.Leaf[k] = v
	}
	for k, l := range n.LL {
		c.LL[k] = cloneVals(l)
	}
	for k := range n.EmptyLL {
		c.EmptyLL[k] = true
	}
	for k, x := range n.Cont {
		c.Cont[k] = x.Clone()
	}
	for k, l := range n.List {
		var out []*Entry
		for _, e := range l {
			out = append(out, &Entry{Key: cloneVals(e.Key), N: e.N.Clone()})
		}
		c.List[k] = out
	}
	for k, l := range n.UList {
		var out []*Node
		for _, e := range l {
			out = append(out, e.Clone())
		}
		c.UList[k] = out
	}
	return c
}

func cloneVals(l []Val) []Val {
	if l == nil {
		return nil
	}
	out := make([]Val, len(l))
	for i, v := range l {
		if v.B != nil {
			v.B = append([]byte{}, v.B...)
		}
		out[i] = v
	}
	return out
}

// sortedEntries returns entries sorted by canonical key (for unordered lists).
func sortedEntries(l []*Entry) []*Entry {
	out := append([]*Entry(nil), l...)
	sort.SliceStable(out, func(i, j int) bool { return KeyCanon(out[i].Key) < KeyCanon(out[j].Key) })
	return out
}

// DiffOpts tunes tree comparison.
type DiffOpts struct {
	IgnoreOrder    bool // compare ordered lists as sets
	IgnorePresence bool // do not compare presence/emptiness of containers
	LooseEnum      bool
	Max            int
}

// Diff lists the differences between two model trees (at most o.Max, default 8). Empty = equal.
// Unordered keyed lists compare as sets of (key, entry); ordered lists and leaf-lists as sequences.
func Diff(a, b *Node, o DiffOpts) []string {
	if o.Max == 0 {
		o.Max = 8
	}
	var out []string
	diffNode("", a, b, o, &out)
	return out
}

func vcanon(v Val, o DiffOpts) string {
	if o.LooseEnum {
		return v.LooseCanon()
	}
	return v.Canon()
}

func diffNode(p string, a, b *Node, o DiffOpts, out *[]string) {
	if len(*out) >= o.Max {
		return
	}
	add := func(f string, x ...interface{}) {
		if len(*out) < o.Max {
			*out = append(*out, p+": "+fmt.Sprintf(f, x...))
		}
	}
	if a == nil || b == nil {
		if a != b {
			add("one side nil (a=%v b=%v)", a != nil, b != nil)
		}
		return
	}
	for _, f := range a.SI.Fields {
		name := f.Name
		fp := p + "/" + name
		switch f.Kind {
		case FLeaf:
			va, oka := a.Leaf[name]
			vb, okb := b.Leaf[name]
			if oka != okb {
				add("leaf %s set a=%v(%s) b=%v(%s)", name, oka, va, okb, vb)
			} else if oka && vcanon(va, o) != vcanon(vb, o) {
				add("leaf %s: a=%s b=%s", name, va, vb)
			}
		case FLeafList:
			la, lb := a.LL[name], b.LL[name]
			if len(la) != len(lb) {
				add("leaf-list %s: len a=%d b=%d (a=%v b=%v)", name, len(la), len(lb), la, lb)
				continue
			}
			for i := range la {
				if vcanon(la[i], o) != vcanon(lb[i], o) {
					add("leaf-list %s[%d]: a=%s b=%s", name, i, la[i], lb[i])
					break
				}
			}
		case FCont:
			ca, oka := a.Cont[name]
			cb, okb := b.Cont[name]
			if oka != okb {
				if o.IgnorePresence && ca.IsEmpty(false) && cb.IsEmpty(false) {
					continue
				}
				add("container %s present a=%v b=%v", name, oka, okb)
				continue
			}
			if oka {
				diffNode(fp, ca, cb, o, out)
			}
		case FList, FOrdList:
			la, lb := a.List[name], b.List[name]
			if f.Kind == FList || o.IgnoreOrder {
				la, lb = sortedEntries(la), sortedEntries(lb)
			}
			if len(la) != len(lb) {
				add("list %s: %d entries in a %v, %d in b %v", name, len(la), entryKeys(la), len(lb), entryKeys(lb))
				continue
			}
			for i := range la {
				ka, kb := KeyCanon(la[i].Key), KeyCanon(lb[i].Key)
				if o.LooseEnum {
					ka, kb = KeyLoose(la[i].Key), KeyLoose(lb[i].Key)
				}
				if ka != kb {
					add("list %s entry %d: key a=%s b=%s (a keys %v, b keys %v)", name, i, ka, kb, entryKeys(la), entryKeys(lb))
					break
				}
				diffNode(fp+"["+ka+"]", la[i].N, lb[i].N, o, out)
			}
		case FUList:
			la, lb := a.UList[name], b.UList[name]
			if len(la) != len(lb) {
				add("unkeyed list %s: len a=%d b=%d", name, len(la), len(lb))
				continue
			}
			for i := range la {
				diffNode(fmt.Sprintf("%s[#%d]", fp, i), la[i], lb[i], o, out)
			}
		}
	}
}

func entryKeys(l []*Entry) []string {
	var r []string
	for _, e := range l {
		r = append(r, KeyCanon(e.Key))
	}
	return r
}

// Dump renders the tree as nested text for failure messages and samples.
func (n *Node) Dump() string {
	var sb strings.Builder
	n.dump(&sb, 0)
	return sb.String()
}

func (n *Node) dump(sb *strings.Builder, ind int) {
	pad := strings.Repeat(" ", ind)
	if n == nil {
		sb.WriteString(pad + "<nil>\n")
		return
	}
	for _, f := range n.SI.Fields {
		switch f.Kind {
		case FLeaf:
			if v, ok := n.Leaf[f.Name]; ok {
				fmt.Fprintf(sb, "%s%s = %s\n", pad, f.Name, v)
			}
		case FLeafList:
			if l, ok := n.LL[f.Name]; ok {
				fmt.Fprintf(sb, "%s%s = %v\n", pad, f.Name, l)
			} else if n.EmptyLL[f.Name] {
				fmt.Fprintf(sb, "%s%s = [] (non-nil)\n", pad, f.Name)
			}
		case FCont:
			if c, ok := n.Cont[f.Name]; ok {
				fmt.Fprintf(sb, "%s%s {\n", pad, f.Name)
				c.dump(sb, ind+1)
				fmt.Fprintf(sb, "%s}\n", pad)
			}
		case FList, FOrdList:
			for _, e := range n.List[f.Name] {
				fmt.Fprintf(sb, "%s%s[%s] {\n", pad, f.Name, KeyCanon(e.Key))
				e.N.dump(sb, ind+1)
				fmt.Fprintf(sb, "%s}\n", pad)
			}
		case FUList:
			for i, e := range n.UList[f.Name] {
				fmt.Fprintf(sb, "%s%s[#%d] {\n", pad, f.Name, i)
				e.dump(sb, ind+1)
				fmt.Fprintf(sb, "%s}\n", pad)
			}
		}
	}
}

// Stats summarises a tree for class histograms and non-triviality rules.
type Stats struct {
	Leaves, LeafLists, Entries, OrdEntries, UEntries, Containers, Presence    int
	Unions, Enums, Decimals, Int64s, Binaries, Empties, LeafInEntry, MaxDepth int
	KeyKinds                                                                  map[string]int
}

// Stat walks the tree.
func (n *Node) Stat() Stats {
	s := Stats{KeyKinds: map[string]int{}}
	n.stat(&s, 0, false)
	return s
}

func (s *Stats) val(f *FieldInfo, v Val) {
	if f.ElemUnion {
		s.Unions++
	}
	switch v.K {
	case KEnum:
		s.Enums++
	case KDec:
		s.Decimals++
	case KInt64, KUint64:
		s.Int64s++
	case KBin:
		s.Binaries++
	case KEmpty:
		s.Empties++
	}
}

func (n *Node) stat(s *Stats, depth int, inEntry bool) {
	if n == nil {
		return
	}
	if depth > s.MaxDepth {
		s.MaxDepth = depth
	}
	for _, f := range n.SI.Fields {
		switch f.Kind {
		case FLeaf:
			if v, ok := n.Leaf[f.Name]; ok {
				s.Leaves++
				if inEntry {
					s.LeafInEntry++
				}
				s.val(f, v)
			}
		case FLeafList:
			if l := n.LL[f.Name]; len(l) > 0 {
				s.LeafLists++
				for _, v := range l {
					s.val(f, v)
				}
			}
		case FCont:
			if c, ok := n.Cont[f.Name]; ok {
				s.Containers++
				if f.Presence {
					s.Presence++
				}
				c.stat(s, depth+1, inEntry)
			}
		case FList, FOrdList:
			for _, e := range n.List[f.Name] {
				if f.Kind == FOrdList {
					s.OrdEntries++
				}
				s.Entries++
				for _, k := range e.Key {
					s.KeyKinds[k.K.String()]++
				}
				e.N.stat(s, depth+1, true)
			}
		case FUList:
			for _, e := range n.UList[f.Name] {
				s.UEntries++
				e.stat(s, depth+1, true)
			}
		}
	}
}

// AnyVal reports whether some leaf value, leaf-list element or list key of the tree satisfies pred.
func (n *Node) AnyVal(pred func(f *FieldInfo, v Val) bool) bool {
	if n == nil {
		return false
	}
	for _, f := range n.SI.Fields {
		switch f.Kind {
		case FLeaf:
			if v, ok := n.Leaf[f.Name]; ok && pred(f, v) {
				return true
			}
		case FLeafList:
			for _, v := range n.LL[f.Name] {
				if pred(f, v) {
					return true
				}
			}
		case FCont:
			if n.Cont[f.Name].AnyVal(pred) {
				return true
			}
		case FList, FOrdList:
			for _, e := range n.List[f.Name] {
				for i, k := range e.Key {
					if i < len(f.KeyFields) && pred(f.KeyFields[i], k) {
						return true
					}
				}
				if e.N.AnyVal(pred) {
					return true
				}
			}
		case FUList:
			for _, e := range n.UList[f.Name] {
				if e.AnyVal(pred) {
					return true
				}
			}
		}
	}
	return false
}

// AnyField reports whether some populated field of the tree satisfies pred.
func (n *Node) AnyField(pred func(n *Node, f *FieldInfo) bool) bool {
	if n == nil {
		return false
	}
	for _, f := range n.SI.Fields {
		switch f.Kind {
		case FLeaf:
			if _, ok := n.Leaf[f.Name]; ok && pred(n, f) {
				return true
			}
		case FLeafList:
			if (len(n.LL[f.Name]) > 0 || n.EmptyLL[f.Name]) && pred(n, f) {
				return true
			}
		case FCont:
			if c, ok := n.Cont[f.Name]; ok && (pred(n, f) || c.AnyField(pred)) {
				return true
			}
		case FList, FOrdList:
			if l, ok := n.List[f.Name]; ok {
				if pred(n, f) {
					return true
				}
				for _, e := range l {
					if e.N.AnyField(pred) {
						return true
					}
				}
			}
		case FUList:
			if l, ok := n.UList[f.Name]; ok {
				if pred(n, f) {
					return true
				}
				for _, e := range l {
					if e.AnyField(pred) {
						return true
					}
				}
			}
		}
	}
	return false
}

// NormalizeDoc is Normalize for a tree that stands for a document: leaf-lists marked EmptyLL are
// kept (the document mentions them as []), and so are the containers that hold nothing else.
func (n *Node) NormalizeDoc() *Node {
	if n == nil {
		return nil
	}
	for k, l := range n.LL {
		if len(l) == 0 {
			delete(n.LL, k)
		}
	}
	for k := range n.EmptyLL {
		if len(n.LL[k]) > 0 {
			delete(n.EmptyLL, k)
		}
	}
	for k, l := range n.List {
		if len(l) == 0 {
			delete(n.List, k)
		}
		for _, e := range l {
			e.N.NormalizeDoc()
		}
	}
	for k, l := range n.UList {
		if len(l) == 0 {
			delete(n.UList, k)
		}
		for _, e := range l {
			e.NormalizeDoc()
		}
	}
	for k, c := range n.Cont {
		c.NormalizeDoc()
		if !n.SI.ByName[k].Presence && c.IsEmpty(true) && !c.mentionsEmptyLL() {
			delete(n.Cont, k)
		}
	}
	return n
}

func (n *Node) mentionsEmptyLL() bool {
	if len(n.EmptyLL) > 0 {
		return true
	}
	for _, c := range n.Cont {
		if c.mentionsEmptyLL() {
			return true
		}
	}
	return false
}
