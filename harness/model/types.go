// Package model is the harness's own, ygot-independent view of data trees: schema ground truth from
// goyang, typed values, an abstract tree (Node), a rapid generator, a reflective builder (Node ->
// GoStruct) and observer (GoStruct -> Node), independent renderers and reference semantics.
package model

import (
	"encoding/base64"
	"fmt"
	"math"
	"math/big"
	"reflect"
	"sort"
	"strconv"
	"strings"

	"github.com/openconfig/goyang/pkg/yang"
)

// Kind is the kind of a typed value.
type Kind uint8

const (
	KNone Kind = iota
	KInt8
	KInt16
	KInt32
	KInt64
	KUint8
	KUint16
	KUint32
	KUint64
	KDec
	KStr
	KBool
	KEmpty
	KBin
	KEnum // enumeration or identityref
)

var kindNames = map[Kind]string{KNone: "none", KInt8: "i8", KInt16: "i16", KInt32: "i32", KInt64: "i64", KUint8: "u8",
	KUint16: "u16", KUint32: "u32", KUint64: "u64", KDec: "dec", KStr: "str", KBool: "bool", KEmpty: "empty", KBin: "bin", KEnum: "enum"}

func (k Kind) String() string { return kindNames[k] }

// Signed / Unsigned report integer kinds.
func (k Kind) Signed() bool   { return k >= KInt8 && k <= KInt64 }
func (k Kind) Unsigned() bool { return k >= KUint8 && k <= KUint64 }

// Bits returns the width of an integer kind.
func (k Kind) Bits() int {
	switch k {
	case KInt8, KUint8:
		return 8
	case KInt16, KUint16:
		return 16
	case KInt32, KUint32:
		return 32
	case KInt64, KUint64:
		return 64
	}
	return 0
}

// Val is one typed leaf value. Exactly the fields of its kind are meaningful.
type Val struct {
	K     Kind
	I     int64   // signed integers; enum: Go numeric value
	U     uint64  // unsigned integers
	F     float64 // decimal64 (the Go representation ygot documents)
	FD    int     // decimal64 fraction digits (informational)
	S     string  // string; enum: YANG name
	Mod   string  // enum: defining module of an identity ("" for enumerations)
	B     []byte  // binary
	Bool  bool
	ET    reflect.Type // enum: Go type
	Ident bool         // enum value is an identityref
}

// Canon is an injective text form used for equality and hashing.
func (v Val) Canon() string {
	switch {
	case v.K == KNone:
		return "none"
	case v.K.Signed():
		return v.K.String() + ":" + strconv.FormatInt(v.I, 10)
	case v.K.Unsigned():
		return v.K.String() + ":" + strconv.FormatUint(v.U, 10)
	}
	switch v.K {
	case KDec:
		return "dec:" + strconv.FormatFloat(v.F, 'g', -1, 64)
	case KStr:
		return "str:" + strconv.Quote(v.S)
	case KBool:
		return "bool:" + strconv.FormatBool(v.Bool)
	case KEmpty:
		return "empty"
	case KBin:
		return "bin:" + base64.StdEncoding.EncodeToString(v.B)
	case KEnum:
		tn := ""
		if v.ET != nil {
			tn = v.ET.Name()
		}
		return "enum:" + tn + ":" + v.S + ":" + strconv.FormatInt(v.I, 10)
	}
	return "?"
}

func (v Val) String() string { return v.Canon() }

// Equal compares two values.
func (v Val) Equal(o Val) bool { return v.Canon() == o.Canon() }

// LooseCanon ignores the Go enum type and integer width is kept: used when comparing values that went
// through a representation that cannot carry the Go enum type (e.g. a path key string).
func (v Val) LooseCanon() string {
	if v.K == KEnum {
		return "enum:" + v.S
	}
	return v.Canon()
}

// EnumMember is one enumeration / identity value as Go code represents it.
type EnumMember struct {
	Name    string
	Mod     string // defining module for identities
	GoVal   int64
	YangVal int64 // enumeration value in YANG (enumerations only)
}

// LType is a fully resolved leaf type (leafrefs followed, typedefs flattened).
type LType struct {
	Kind     yang.TypeKind
	Y        *yang.YangType
	FD       int
	Range    yang.YangRange
	Length   yang.YangRange
	Patterns []string
	Posix    []string
	Enum     []EnumMember // enumeration or identityref members (Go values resolved per field)
	GoEnum   reflect.Type
	Ident    bool
	Members  []*LType // flattened union members in schema order
	Leafref  string   // leafref path if the leaf (or this member) is a leafref ("" otherwise)
	Target   *yang.Entry
}

// VKind maps the YANG kind to the value kind.
func (lt *LType) VKind() Kind {
	switch lt.Kind {
	case yang.Yint8:
		return KInt8
	case yang.Yint16:
		return KInt16
	case yang.Yint32:
		return KInt32
	case yang.Yint64:
		return KInt64
	case yang.Yuint8:
		return KUint8
	case yang.Yuint16:
		return KUint16
	case yang.Yuint32:
		return KUint32
	case yang.Yuint64:
		return KUint64
	case yang.Ydecimal64:
		return KDec
	case yang.Ystring:
		return KStr
	case yang.Ybool:
		return KBool
	case yang.Yempty:
		return KEmpty
	case yang.Ybinary:
		return KBin
	case yang.Yenum, yang.Yidentityref:
		return KEnum
	}
	return KNone
}

// IsUnion reports a union type.
func (lt *LType) IsUnion() bool { return lt.Kind == yang.Yunion }

// ---- exact arithmetic helpers ---------------------------------------------------------------------

var pow10 = func() []*big.Int {
	r := make([]*big.Int, 40)
	r[0] = big.NewInt(1)
	for i := 1; i < len(r); i++ {
		r[i] = new(big.Int).Mul(r[i-1], big.NewInt(10))
	}
	return r
}()

// NumberScaled returns n as an integer scaled by 10^fd.
func NumberScaled(n yang.Number, fd int) *big.Int {
	x := new(big.Int).SetUint64(n.Value)
	if n.Negative {
		x.Neg(x)
	}
	d := fd - int(n.FractionDigits)
	if d > 0 {
		x.Mul(x, pow10[d])
	} else if d < 0 {
		x.Quo(x, pow10[-d])
	}
	return x
}

// DecString renders a scaled decimal in RFC 7950 canonical form (no exponent, at least one digit on
// each side, no superfluous trailing zeros).
func DecString(scaled *big.Int, fd int) string {
	neg := scaled.Sign() < 0
	a := new(big.Int).Abs(scaled)
	s := a.String()
	for len(s) <= fd {
		s = "0" + s
	}
	ip, fp := s[:len(s)-fd], s[len(s)-fd:]
	fp = strings.TrimRight(fp, "0")
	if fp == "" {
		fp = "0"
	}
	r := ip + "." + fp
	if neg {
		r = "-" + r
	}
	return r
}

// DecFloat converts a scaled decimal to the correctly rounded float64.
func DecFloat(scaled *big.Int, fd int) float64 {
	f, err := strconv.ParseFloat(DecString(scaled, fd), 64)
	if err != nil {
		panic(err)
	}
	return f
}

// FloatScaled converts a float64 holding a decimal64 of fd fraction digits back to the scaled integer
// (exact for |scaled| < 2^49, the domain bound of the generators). ok=false when the float is not
// within 1e-9 relative distance of a multiple of 10^-fd or is not finite.
func FloatScaled(f float64, fd int) (*big.Int, bool) {
	if math.IsInf(f, 0) || math.IsNaN(f) {
		return nil, false
	}
	bf := new(big.Float).SetPrec(200).SetFloat64(f)
	bf.Mul(bf, new(big.Float).SetPrec(200).SetInt(pow10[fd]))
	// round to nearest
	half := big.NewFloat(0.5)
	if bf.Sign() < 0 {
		bf.Sub(bf, half)
	} else {
		bf.Add(bf, half)
	}
	i, _ := bf.Int(nil)
	if DecFloat(i, fd) != f {
		return i, false
	}
	return i, true
}

// InRange says whether scaled x lies in the union of parts of r (scaled by fd). nil range = everything.
func InRange(r yang.YangRange, x *big.Int, fd int) bool {
	if len(r) == 0 {
		return true
	}
	for _, p := range r {
		if x.Cmp(NumberScaled(p.Min, fd)) >= 0 && x.Cmp(NumberScaled(p.Max, fd)) <= 0 {
			return true
		}
	}
	return false
}

// LenOK says whether n lies in the length parts.
func LenOK(r yang.YangRange, n int) bool { return InRange(r, big.NewInt(int64(n)), 0) }

// kindBounds gives the natural bounds of an integer kind.
func kindBounds(k Kind) (lo, hi *big.Int) {
	b := k.Bits()
	if k.Signed() {
		hi = new(big.Int).Sub(new(big.Int).Lsh(big.NewInt(1), uint(b-1)), big.NewInt(1))
		lo = new(big.Int).Neg(new(big.Int).Lsh(big.NewInt(1), uint(b-1)))
		return
	}
	return big.NewInt(0), new(big.Int).Sub(new(big.Int).Lsh(big.NewInt(1), uint(b)), big.NewInt(1))
}

// Lexical renders the RFC 7950 canonical lexical form of v (used for path keys and defaults).
func (v Val) Lexical() string {
	switch {
	case v.K.Signed():
		return strconv.FormatInt(v.I, 10)
	case v.K.Unsigned():
		return strconv.FormatUint(v.U, 10)
	}
	switch v.K {
	case KDec:
		if sc, ok := FloatScaled(v.F, v.FD); ok {
			return DecString(sc, v.FD)
		}
		return strconv.FormatFloat(v.F, 'f', -1, 64)
	case KStr:
		return v.S
	case KBool:
		return strconv.FormatBool(v.Bool)
	case KBin:
		return base64.StdEncoding.EncodeToString(v.B)
	case KEnum:
		return v.S
	case KEmpty:
		return ""
	}
	return ""
}

// sortedKeys returns the sorted keys of a map with string keys.
func sortedKeys[V any](m map[string]V) []string {
	ks := make([]string, 0, len(m))
	for k := range m {
		ks = append(ks, k)
	}
	sort.Strings(ks)
	return ks
}

func errf(format string, a ...interface{}) error { return fmt.Errorf(format, a...) }
