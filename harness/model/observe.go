package model

import (
	"fmt"
	"reflect"

	"github.com/openconfig/goyang/pkg/yang"
	"github.com/openconfig/ygot/ygot"
)

// Observe reads a GoStruct into a model tree by plain reflection over fields and tags. It never
// calls ygot renderers or walkers. List keys are read from the map key; the entries' key leaves are
// read separately like any other leaf, so disagreement between the two stays visible.
// The result is NOT normalised: empty containers and maps are reported as present-but-empty.
func Observe(v *Variant, gs ygot.GoStruct) *Node {
	v.MustInit()
	rv := reflect.ValueOf(gs)
	if rv.Kind() != reflect.Ptr || rv.IsNil() {
		return nil
	}
	si, ok := v.Structs[rv.Type().Elem()]
	if !ok {
		panic(fmt.Sprintf("HARNESS-BUG: Observe: unknown struct type %s", rv.Type()))
	}
	return observeStruct(si, rv.Elem())
}

// ObserveNorm is Observe followed by Normalize.
func ObserveNorm(v *Variant, gs ygot.GoStruct) *Node {
	n := Observe(v, gs)
	if n == nil {
		return NewNode(v.Root)
	}
	return n.Normalize()
}

func observeStruct(si *StructInfo, sv reflect.Value) *Node {
	n := NewNode(si)
	for _, f := range si.Fields {
		fv := sv.Field(f.Index)
		switch f.Kind {
		case FLeaf:
			if v, ok := ObserveValue(si.V, f.Type, fv); ok {
				n.Leaf[f.Name] = v
			}
		case FLeafList:
			if fv.IsNil() {
				continue
			}
			if fv.Len() == 0 {
				n.EmptyLL[f.Name] = true
				continue
			}
			l := make([]Val, 0, fv.Len())
			for i := 0; i < fv.Len(); i++ {
				v, ok := ObserveValue(si.V, f.Type, fv.Index(i))
				if !ok {
					v = Val{K: KNone}
				}
				l = append(l, v)
			}
			n.LL[f.Name] = l
		case FCont:
			if !fv.IsNil() {
				n.Cont[f.Name] = observeStruct(f.Child, fv.Elem())
			}
		case FList:
			if fv.IsNil() {
				continue
			}
			var l []*Entry
			it := fv.MapRange()
			for it.Next() {
				e := &Entry{Key: observeKey(f, it.Key())}
				if it.Value().IsNil() {
					e.N = NewNode(f.Child)
				} else {
					e.N = observeStruct(f.Child, it.Value().Elem())
				}
				l = append(l, e)
			}
			n.List[f.Name] = sortedEntries(l)
			if len(l) == 0 {
				n.List[f.Name] = []*Entry{}
			}
		case FOrdList:
			if fv.IsNil() {
				continue
			}
			om := fv.Elem()
			keys := unexported(om.FieldByName("keys"))
			vm := unexported(om.FieldByName("valueMap"))
			l := []*Entry{}
			for i := 0; i < keys.Len(); i++ {
				kv := keys.Index(i)
				e := &Entry{Key: observeKey(f, kv)}
				ev := reflect.Value{}
				if !vm.IsNil() {
					ev = vm.MapIndex(kv)
				}
				if !ev.IsValid() || ev.IsNil() {
					e.N = NewNode(f.Child)
				} else {
					e.N = observeStruct(f.Child, ev.Elem())
				}
				l = append(l, e)
			}
			// entries present in valueMap but not in keys would be invisible to users of Keys();
			// report them at the end so that a disagreement shows up in comparisons
			if !vm.IsNil() && vm.Len() != keys.Len() {
				it := vm.MapRange()
				for it.Next() {
					found := false
					for i := 0; i < keys.Len(); i++ {
						if reflect.DeepEqual(keys.Index(i).Interface(), it.Key().Interface()) {
							found = true
						}
					}
					if !found {
						e := &Entry{Key: append(observeKey(f, it.Key()), Val{K: KStr, S: "<valueMap-only>"})}
						e.N = NewNode(f.Child)
						l = append(l, e)
					}
				}
			}
			n.List[f.Name] = l
		case FUList:
			if fv.IsNil() {
				continue
			}
			l := []*Node{}
			for i := 0; i < fv.Len(); i++ {
				if fv.Index(i).IsNil() {
					l = append(l, NewNode(f.Child))
				} else {
					l = append(l, observeStruct(f.Child, fv.Index(i).Elem()))
				}
			}
			n.UList[f.Name] = l
		}
	}
	return n
}

func observeKey(f *FieldInfo, kv reflect.Value) []Val {
	if kv.Kind() == reflect.Struct && isKeyStruct(kv.Type()) {
		out := make([]Val, len(f.KeyNames))
		for i, kn := range f.KeyNames {
			for j := 0; j < kv.NumField(); j++ {
				if kv.Type().Field(j).Tag.Get("path") == kn {
					v, _ := ObserveValue(f.Owner.V, f.KeyFields[i].Type, kv.Field(j))
					out[i] = v
				}
			}
		}
		return out
	}
	v, _ := ObserveValue(f.Owner.V, f.KeyFields[0].Type, kv)
	return []Val{v}
}

// ObserveValue reads one Go leaf value (field, slice element or map key). ok=false means unset.
func ObserveValue(vr *Variant, lt *LType, x reflect.Value) (Val, bool) {
	switch x.Kind() {
	case reflect.Ptr:
		if x.IsNil() {
			return Val{}, false
		}
		if x.Elem().Kind() == reflect.Struct { // wrapper union member
			if x.Elem().NumField() != 1 {
				return Val{K: KNone, S: "wrapper with " + fmt.Sprint(x.Elem().NumField()) + " fields"}, true
			}
			return ObserveValue(vr, lt, x.Elem().Field(0))
		}
		return ObserveValue(vr, lt, x.Elem())
	case reflect.Interface:
		if x.IsNil() {
			return Val{}, false
		}
		return ObserveValue(vr, lt, x.Elem())
	}
	t := x.Type()
	switch x.Kind() {
	case reflect.Int64:
		if t.Implements(goEnumT) {
			if x.Int() == 0 {
				return Val{}, false
			}
			d, ok := vr.Enum[t.Name()][x.Int()]
			v := Val{K: KEnum, I: x.Int(), ET: t, S: d.Name, Mod: d.DefiningModule, Ident: d.DefiningModule != ""}
			if !ok {
				v.S = "<undefined>"
			}
			return v, true
		}
		return Val{K: KInt64, I: x.Int()}, true
	case reflect.Int8:
		return Val{K: KInt8, I: x.Int()}, true
	case reflect.Int16:
		return Val{K: KInt16, I: x.Int()}, true
	case reflect.Int32:
		return Val{K: KInt32, I: x.Int()}, true
	case reflect.Uint8:
		return Val{K: KUint8, U: x.Uint()}, true
	case reflect.Uint16:
		return Val{K: KUint16, U: x.Uint()}, true
	case reflect.Uint32:
		return Val{K: KUint32, U: x.Uint()}, true
	case reflect.Uint64:
		return Val{K: KUint64, U: x.Uint()}, true
	case reflect.Float64:
		return Val{K: KDec, F: x.Float(), FD: decFD(lt)}, true
	case reflect.String:
		return Val{K: KStr, S: x.String()}, true
	case reflect.Bool:
		if t.Name() == "YANGEmpty" {
			if !x.Bool() {
				return Val{}, false
			}
			return Val{K: KEmpty}, true
		}
		return Val{K: KBool, Bool: x.Bool()}, true
	case reflect.Slice:
		if x.IsNil() {
			return Val{}, false
		}
		b := make([]byte, x.Len())
		reflect.Copy(reflect.ValueOf(b), x)
		return Val{K: KBin, B: b}, true
	}
	return Val{K: KNone, S: "unobservable " + t.String()}, true
}

func decFD(lt *LType) int {
	if lt == nil {
		return 0
	}
	if lt.Kind == yang.Ydecimal64 {
		return lt.FD
	}
	for _, m := range lt.Members {
		if m.Kind == yang.Ydecimal64 {
			return m.FD
		}
	}
	return 0
}
