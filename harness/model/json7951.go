package model

import (
	"bytes"
	"encoding/base64"
	"encoding/json"
	"fmt"
	"math/big"
	"sort"
	"strconv"
	"strings"
	"unicode/utf8"

	"github.com/openconfig/goyang/pkg/yang"
)

// JSONOpts selects how the harness renders RFC 7951 JSON.
type JSONOpts struct {
	Prefix      bool // RFC 7951 section 4 member-name prefixes and module:identity values
	IdentPrefix bool // prefix identityref values only
	AllAlts     bool // emit every alternative path of a compressed field (key leaves: config/x and x)
	EmptyArrays bool // render leaf-lists marked EmptyLL as [] (a document that mentions the leaf-list with no members)
}

// ---- rendering (independent of ygot) -----------------------------------------------------------------

// RenderJSON renders node n (a container, list entry or the root) as an RFC 7951 JSON object.
func RenderJSON(n *Node, o JSONOpts) []byte {
	obj := renderNode(n, o)
	b, err := marshalNoHTML(obj)
	if err != nil {
		panic("HARNESS-BUG: " + err.Error())
	}
	return b
}

// MarshalJSON encodes v without HTML escaping and without a trailing newline.
func MarshalJSON(v interface{}) ([]byte, error) { return marshalNoHTML(v) }

func marshalNoHTML(v interface{}) ([]byte, error) {
	var buf bytes.Buffer
	enc := json.NewEncoder(&buf)
	enc.SetEscapeHTML(false)
	if err := enc.Encode(v); err != nil {
		return nil, err
	}
	return bytes.TrimRight(buf.Bytes(), "\n"), nil
}

// RenderValue renders one leaf value as RFC 7951 JSON.
func RenderValue(v Val, o JSONOpts) interface{} { return jsonValue(v, o) }

func jsonValue(v Val, o JSONOpts) interface{} {
	switch {
	case v.K == KInt64:
		return strconv.FormatInt(v.I, 10)
	case v.K == KUint64:
		return strconv.FormatUint(v.U, 10)
	case v.K.Signed():
		return json.Number(strconv.FormatInt(v.I, 10))
	case v.K.Unsigned():
		return json.Number(strconv.FormatUint(v.U, 10))
	}
	switch v.K {
	case KDec:
		return v.Lexical()
	case KStr:
		return v.S
	case KBool:
		return v.Bool
	case KEmpty:
		return []interface{}{nil}
	case KBin:
		return base64.StdEncoding.EncodeToString(v.B)
	case KEnum:
		if v.Ident && (o.Prefix || o.IdentPrefix) && v.Mod != "" {
			return v.Mod + ":" + v.S
		}
		return v.S
	}
	panic("HARNESS-BUG: jsonValue of " + v.Canon())
}

// memberNames returns the JSON member names for the path elements p below struct entry e.
func memberNames(si *StructInfo, p []string, o JSONOpts) []string {
	out := make([]string, len(p))
	cur := si.Entry
	parentMod := ""
	if cur != nil && cur.Parent != nil { // not the fake root
		parentMod = si.V.ModuleOf(cur)
	}
	for i, name := range p {
		next, _ := childEntry(cur, name)
		out[i] = name
		if next != nil {
			m := si.V.ModuleOf(next)
			if o.Prefix && m != parentMod && m != "" {
				out[i] = m + ":" + name
			}
			parentMod = m
		}
		cur = next
	}
	return out
}

func setNested(obj map[string]interface{}, names []string, val interface{}) {
	for i, n := range names {
		if i == len(names)-1 {
			obj[n] = val
			return
		}
		sub, ok := obj[n].(map[string]interface{})
		if !ok {
			sub = map[string]interface{}{}
			obj[n] = sub
		}
		obj = sub
	}
}

func renderNode(n *Node, o JSONOpts) map[string]interface{} {
	obj := map[string]interface{}{}
	for _, f := range n.SI.Fields {
		alts := 1
		if o.AllAlts {
			alts = len(f.Paths)
		}
		var val interface{}
		switch f.Kind {
		case FLeaf:
			v, ok := n.Leaf[f.Name]
			if !ok {
				continue
			}
			val = jsonValue(v, o)
		case FLeafList:
			l := n.LL[f.Name]
			if len(l) == 0 && !(o.EmptyArrays && n.EmptyLL[f.Name]) {
				continue
			}
			arr := make([]interface{}, len(l))
			for i, v := range l {
				arr[i] = jsonValue(v, o)
			}
			val = arr
		case FCont:
			c, ok := n.Cont[f.Name]
			if !ok {
				continue
			}
			val = renderNode(c, o)
		case FList, FOrdList:
			l := n.List[f.Name]
			if len(l) == 0 {
				continue
			}
			arr := make([]interface{}, len(l))
			for i, e := range l {
				arr[i] = renderNode(e.N, o)
			}
			val = arr
		case FUList:
			l := n.UList[f.Name]
			if len(l) == 0 {
				continue
			}
			arr := make([]interface{}, len(l))
			for i, e := range l {
				arr[i] = renderNode(e, o)
			}
			val = arr
		}
		for a := 0; a < alts; a++ {
			setNested(obj, memberNames(n.SI, f.Paths[a], o), val)
		}
	}
	return obj
}

// ---- strict decoding -----------------------------------------------------------------------------------

// ParseJSON decodes an RFC 7951 JSON object into a model tree for struct si with a strict decoder:
// every value must have the JSON kind and lexical form RFC 7951 / RFC 7950 prescribe for its type.
// Member names may carry module prefixes (checked against the schema when present).
func ParseJSON(si *StructInfo, data []byte) (*Node, error) {
	dec := json.NewDecoder(bytes.NewReader(data))
	dec.UseNumber()
	var raw interface{}
	if err := dec.Decode(&raw); err != nil {
		return nil, err
	}
	obj, ok := raw.(map[string]interface{})
	if !ok {
		return nil, errf("top level is %T, want object", raw)
	}
	n := NewNode(si)
	if err := parseInto(n, obj, ""); err != nil {
		return nil, err
	}
	return n, nil
}

func stripMod(s string) (mod, name string) {
	if i := strings.Index(s, ":"); i >= 0 {
		return s[:i], s[i+1:]
	}
	return "", s
}

// flatten turns nested objects into path -> value for the path depths the struct's fields use.
func lookupPath(obj map[string]interface{}, p []string) (interface{}, bool) {
	var cur interface{} = obj
	for _, el := range p {
		m, ok := cur.(map[string]interface{})
		if !ok {
			return nil, false
		}
		found := false
		for k, v := range m {
			if _, name := stripMod(k); name == el {
				cur, found = v, true
				break
			}
		}
		if !found {
			return nil, false
		}
	}
	return cur, true
}

func parseInto(n *Node, obj map[string]interface{}, where string) error {
	used := map[string]bool{}
	for _, f := range n.SI.Fields {
		var raw interface{}
		found := false
		for _, p := range f.Paths {
			if r, ok := lookupPath(obj, p); ok {
				if found && fmt.Sprint(r) != fmt.Sprint(raw) {
					return errf("%s/%s: alternatives of the path disagree: %v vs %v", where, f.Name, raw, r)
				}
				raw, found = r, true
				used[p[0]] = true
			}
		}
		if !found {
			continue
		}
		w := where + "/" + f.SchemaPath()
		switch f.Kind {
		case FLeaf:
			v, err := ParseJSONValue(f.Type, raw)
			if err != nil {
				return errf("%s: %v", w, err)
			}
			n.Leaf[f.Name] = v
		case FLeafList:
			arr, ok := raw.([]interface{})
			if !ok {
				return errf("%s: leaf-list is %T, want array", w, raw)
			}
			for _, x := range arr {
				v, err := ParseJSONValue(f.Type, x)
				if err != nil {
					return errf("%s: %v", w, err)
				}
				n.LL[f.Name] = append(n.LL[f.Name], v)
			}
		case FCont:
			m, ok := raw.(map[string]interface{})
			if !ok {
				return errf("%s: container is %T, want object", w, raw)
			}
			c := NewNode(f.Child)
			if err := parseInto(c, m, w); err != nil {
				return err
			}
			n.Cont[f.Name] = c
		case FList, FOrdList:
			arr, ok := raw.([]interface{})
			if !ok {
				return errf("%s: list is %T, want array", w, raw)
			}
			for _, x := range arr {
				m, ok := x.(map[string]interface{})
				if !ok {
					return errf("%s: list element is %T, want object", w, x)
				}
				c := NewNode(f.Child)
				if err := parseInto(c, m, w); err != nil {
					return err
				}
				key := make([]Val, len(f.KeyFields))
				for i, kf := range f.KeyFields {
					kv, ok := c.Leaf[kf.Name]
					if !ok {
						return errf("%s: list entry without key %s", w, kf.Name)
					}
					key[i] = kv
				}
				n.List[f.Name] = append(n.List[f.Name], &Entry{Key: key, N: c})
			}
		case FUList:
			arr, ok := raw.([]interface{})
			if !ok {
				return errf("%s: list is %T, want array", w, raw)
			}
			for _, x := range arr {
				m, ok := x.(map[string]interface{})
				if !ok {
					return errf("%s: list element is %T, want object", w, x)
				}
				c := NewNode(f.Child)
				if err := parseInto(c, m, w); err != nil {
					return err
				}
				n.UList[f.Name] = append(n.UList[f.Name], c)
			}
		}
	}
	for k := range obj {
		if _, name := stripMod(k); !used[name] {
			return errf("%s: unknown member %q", where, k)
		}
	}
	return nil
}

// ParseJSONValue strictly decodes one RFC 7951 value of leaf type lt.
func ParseJSONValue(lt *LType, raw interface{}) (Val, error) {
	if lt.IsUnion() {
		var firstErr error
		for _, m := range lt.Members {
			v, err := ParseJSONValue(m, raw)
			if err == nil {
				return v, nil
			}
			if firstErr == nil {
				firstErr = err
			}
		}
		return Val{}, errf("no union member accepts %v (%T): %v", raw, raw, firstErr)
	}
	k := lt.VKind()
	switch {
	case k == KInt64 || k == KUint64:
		s, ok := raw.(string)
		if !ok {
			return Val{}, errf("%s must be a JSON string, got %T %v", k, raw, raw)
		}
		return parseIntLex(lt, k, s)
	case k.Signed() || k.Unsigned():
		num, ok := raw.(json.Number)
		if !ok {
			return Val{}, errf("%s must be a JSON number, got %T %v", k, raw, raw)
		}
		return parseIntLex(lt, k, num.String())
	}
	switch k {
	case KDec:
		s, ok := raw.(string)
		if !ok {
			return Val{}, errf("decimal64 must be a JSON string, got %T %v", raw, raw)
		}
		m := decRe.FindStringSubmatch(s)
		if m == nil {
			return Val{}, errf("decimal64 %q not in RFC 7950 lexical form", s)
		}
		if len(m[3]) > lt.FD {
			return Val{}, errf("decimal64 %q has more than %d fraction digits", s, lt.FD)
		}
		x, _ := new(big.Int).SetString(m[1]+m[2]+m[3]+strings.Repeat("0", lt.FD-len(m[3])), 10)
		if !InRange(lt.Range, x, lt.FD) {
			return Val{}, errf("decimal64 %q out of range", s)
		}
		return Val{K: KDec, F: DecFloat(x, lt.FD), FD: lt.FD}, nil
	case KStr:
		s, ok := raw.(string)
		if !ok {
			return Val{}, errf("string must be a JSON string, got %T %v", raw, raw)
		}
		if !LenOK(lt.Length, utf8.RuneCountInString(s)) {
			return Val{}, errf("string %q violates length", s)
		}
		if !AcceptsLexical(lt, s) {
			return Val{}, errf("string %q violates pattern", s)
		}
		return Val{K: KStr, S: s}, nil
	case KBool:
		b, ok := raw.(bool)
		if !ok {
			return Val{}, errf("boolean must be a JSON boolean, got %T %v", raw, raw)
		}
		return Val{K: KBool, Bool: b}, nil
	case KEmpty:
		a, ok := raw.([]interface{})
		if !ok || len(a) != 1 || a[0] != nil {
			return Val{}, errf("empty must be [null], got %v", raw)
		}
		return Val{K: KEmpty}, nil
	case KBin:
		s, ok := raw.(string)
		if !ok {
			return Val{}, errf("binary must be a JSON string, got %T %v", raw, raw)
		}
		b, err := base64.StdEncoding.DecodeString(s)
		if err != nil {
			return Val{}, errf("binary %q: %v", s, err)
		}
		if !LenOK(lt.Length, len(b)) {
			return Val{}, errf("binary %q violates length", s)
		}
		return Val{K: KBin, B: b}, nil
	case KEnum:
		s, ok := raw.(string)
		if !ok {
			return Val{}, errf("enumeration/identityref must be a JSON string, got %T %v", raw, raw)
		}
		mod, name := "", s
		if lt.Ident {
			mod, name = stripMod(s)
		}
		for _, m := range lt.Enum {
			if m.Name == name && (mod == "" || mod == m.Mod) {
				return EnumVal(lt, m), nil
			}
		}
		return Val{}, errf("%q is not a member", s)
	}
	return Val{}, errf("unsupported kind %s", lt.Kind)
}

func parseIntLex(lt *LType, k Kind, s string) (Val, error) {
	if !intRe(s) {
		return Val{}, errf("%q is not an integer in RFC 7950 lexical form", s)
	}
	x, _ := new(big.Int).SetString(s, 10)
	lo, hi := kindBounds(k)
	if x.Cmp(lo) < 0 || x.Cmp(hi) > 0 || !InRange(lt.Range, x, 0) {
		return Val{}, errf("%s out of range for %s", s, k)
	}
	if k.Signed() {
		return Val{K: k, I: x.Int64()}, nil
	}
	return Val{K: k, U: x.Uint64()}, nil
}

func intRe(s string) bool {
	if s == "" {
		return false
	}
	i := 0
	if s[0] == '-' {
		i = 1
	}
	if i == len(s) {
		return false
	}
	for ; i < len(s); i++ {
		if s[i] < '0' || s[i] > '9' {
			return false
		}
	}
	return true
}

// TypeName gives a short description of a leaf type for messages and class labels.
func (lt *LType) TypeName() string {
	if lt.IsUnion() {
		var p []string
		for _, m := range lt.Members {
			p = append(p, m.TypeName())
		}
		return "union(" + strings.Join(p, ",") + ")"
	}
	if lt.Kind == yang.Ydecimal64 {
		return fmt.Sprintf("decimal64/%d", lt.FD)
	}
	return yang.TypeKindToName[lt.Kind]
}

var _ = sort.Strings
