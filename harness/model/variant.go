package model

import (
	"os"
	"path/filepath"
	"reflect"
	"sort"
	"strings"
	"sync"

	"github.com/openconfig/goyang/pkg/yang"
	"github.com/openconfig/ygot/ygot"
	"github.com/openconfig/ygot/ytypes"
)

// FKind classifies a GoStruct field.
type FKind uint8

const (
	FLeaf FKind = iota
	FLeafList
	FCont
	FList    // keyed list held in a Go map
	FOrdList // ordered-by user list held in a generated ordered map
	FUList   // unkeyed list (slice of struct pointers)
)

func (k FKind) String() string {
	return [...]string{"leaf", "leaf-list", "container", "list", "ordered-list", "unkeyed-list"}[k]
}

// ChoiceStep names one choice/case pair between a struct's schema node and a field's schema node.
type ChoiceStep struct{ Choice, Case string }

// FieldInfo describes one field of a generated struct together with its goyang schema node.
type FieldInfo struct {
	Owner     *StructInfo
	Name      string // Go field name
	Index     int
	Kind      FKind
	GoType    reflect.Type
	Paths     [][]string // alternatives of the `path` tag, each relative to the struct
	Shadow    [][]string // alternatives of the `shadow-path` tag
	Modules   [][]string // alternatives of the `module` tag (parallel to Paths)
	Presence  bool       // yangPresence tag
	Entry     *yang.Entry
	Type      *LType       // leaves and leaf-lists
	Child     *StructInfo  // containers and lists
	KeyNames  []string     // lists: key leaf names in schema order
	KeyFields []*FieldInfo // lists: the child's key leaf fields, in KeyNames order
	KeyType   reflect.Type // lists: Go map key type (scalar or key struct)
	Choices   []ChoiceStep // choice/case ancestry below the struct's node (first path)
	Config    bool         // effective config flag from goyang (true = configuration)
	IsKey     bool         // leaf is a key of the list entry struct that owns it
	Ordered   bool
	Min, Max  uint64 // list / leaf-list element bounds (0 max = unbounded)
	ElemUnion bool   // leaf/leaf-list whose Go type is a union interface
}

// SchemaPath returns the first path alternative joined with '/'.
func (f *FieldInfo) SchemaPath() string { return strings.Join(f.Paths[0], "/") }

// StructInfo describes a generated struct type.
type StructInfo struct {
	V       *Variant
	T       reflect.Type // struct type (not pointer)
	Entry   *yang.Entry
	Fields  []*FieldInfo
	ByName  map[string]*FieldInfo
	IsEntry bool // list entry struct
	Depth   int
}

// Variant is one generated package of the corpus (DESIGN.md 3.1).
type Variant struct {
	Name         string
	Compressed   bool
	PreferState  bool
	Wrapper      bool // wrapper unions
	IgnoreShadow bool
	YangFiles    []string
	NewRoot      func() ygot.GoStruct
	SchemaFn     func() (*ytypes.Schema, error)
	Unmarshal    func([]byte, ygot.GoStruct, ...ytypes.UnmarshalOpt) error
	Enum         map[string]map[int64]ygot.EnumDefinition
	EnumTypes    map[string][]reflect.Type
	UnionScalars []reflect.Type // simple unions: UnionInt8 ... UnionBool of the package
	BinaryType   reflect.Type
	EmptyType    reflect.Type
	PathRoot     func() interface{} // path-struct root (compressed variants with path structs)

	once     sync.Once
	initErr  error
	Root     *StructInfo
	Structs  map[reflect.Type]*StructInfo
	Mods     *yang.Modules
	FakeRoot *yang.Entry
	toFuncs  map[string]reflect.Type // union interface name -> struct type that has the To_<name> method
	enumAll  map[string]reflect.Type // enum Go type name -> type
	schema   *ytypes.Schema
}

// CorpusDir is where the corpus YANG lives.
func CorpusDir() string {
	d := os.Getenv("VERIF_DIR")
	if d == "" {
		d = "/verif"
	}
	return filepath.Join(d, "corpus", "yang")
}

// Schema returns the ygot schema of the generated package (subject of C27; used here only where an
// API under test demands it).
func (v *Variant) Schema() *ytypes.Schema {
	v.MustInit()
	return v.schema
}

// FreshSchema returns a newly unzipped schema (for checks that test mutation of schema.Root).
func (v *Variant) FreshSchema() *ytypes.Schema {
	s, err := v.SchemaFn()
	if err != nil {
		panic(err)
	}
	return s
}

// InitError loads the goyang schema and builds the struct table once, like MustInit, but returns the
// error: the table is built by matching the generated code against the YANG source, so an error means
// that the two do not correspond, which is a finding for the checks whose subject is that correspondence.
func (v *Variant) InitError() error {
	v.once.Do(func() { v.initErr = v.init() })
	return v.initErr
}

// MustInit loads the goyang schema and builds the struct table once.
func (v *Variant) MustInit() {
	v.once.Do(func() { v.initErr = v.init() })
	if v.initErr != nil {
		panic("HARNESS-BUG: variant " + v.Name + ": " + v.initErr.Error())
	}
}

// LoadYANG compiles YANG files with goyang the way any goyang user would (Read, Process, ToEntry on
// every module so augments are applied) and returns the module set and a fake root holding the
// top-level data nodes of the named files' modules.
func LoadYANG(dir string, files []string) (*yang.Modules, *yang.Entry, error) {
	ms := yang.NewModules()
	ms.AddPath(dir)
	for _, f := range files {
		if err := ms.Read(filepath.Join(dir, f)); err != nil {
			return nil, nil, err
		}
	}
	if errs := ms.Process(); len(errs) > 0 {
		return nil, nil, errs[0]
	}
	names := []string{}
	seen := map[string]bool{}
	for _, m := range ms.Modules {
		if !seen[m.Name] {
			seen[m.Name] = true
			names = append(names, m.Name)
		}
	}
	sort.Strings(names)
	root := &yang.Entry{Name: "device", Kind: yang.DirectoryEntry, Dir: map[string]*yang.Entry{}}
	for _, n := range names {
		me := yang.ToEntry(ms.Modules[n])
		if errs := me.GetErrors(); len(errs) > 0 {
			return nil, nil, errs[0]
		}
	}
	for _, n := range names {
		me := yang.ToEntry(ms.Modules[n])
		for _, cn := range sortedKeys(me.Dir) {
			c := me.Dir[cn]
			if c.RPC != nil || c.Kind == yang.NotificationEntry {
				continue
			}
			if c.Kind == yang.DirectoryEntry || c.Kind == yang.LeafEntry || c.IsChoice() {
				root.Dir[cn] = c
			}
		}
	}
	return ms, root, nil
}

func (v *Variant) init() error {
	ms, root, err := LoadYANG(CorpusDir(), v.YangFiles)
	if err != nil {
		return err
	}
	v.Mods, v.FakeRoot = ms, root
	v.Structs = map[reflect.Type]*StructInfo{}
	v.toFuncs = map[string]reflect.Type{}
	v.enumAll = map[string]reflect.Type{}
	for _, ts := range v.EnumTypes {
		for _, t := range ts {
			v.enumAll[t.Name()] = t
		}
	}
	rt := reflect.TypeOf(v.NewRoot()).Elem()
	v.Root, err = v.structInfo(rt, root, 0, false)
	if err != nil {
		return err
	}
	v.schema, err = v.SchemaFn()
	return err
}

func splitAlts(tag string) [][]string {
	if tag == "" {
		return nil
	}
	var r [][]string
	for _, a := range strings.Split(tag, "|") {
		r = append(r, strings.Split(a, "/"))
	}
	return r
}

// childEntry finds the data child `name` of e, looking through choice and case nodes, and returns the
// choice/case steps crossed.
func childEntry(e *yang.Entry, name string) (*yang.Entry, []ChoiceStep) {
	if e == nil {
		return nil, nil
	}
	if c, ok := e.Dir[name]; ok && !c.IsChoice() && !c.IsCase() {
		return c, nil
	}
	for _, cn := range sortedKeys(e.Dir) {
		c := e.Dir[cn]
		if c.IsChoice() {
			for _, csn := range sortedKeys(c.Dir) {
				cs := c.Dir[csn]
				if cs.IsCase() {
					if r, steps := childEntry(cs, name); r != nil {
						return r, append([]ChoiceStep{{c.Name, cs.Name}}, steps...)
					}
				} else if cs.Name == name { // shorthand case
					return cs, []ChoiceStep{{c.Name, cs.Name}}
				}
			}
		}
	}
	return nil, nil
}

// walkEntry follows a relative schema path.
func walkEntry(e *yang.Entry, path []string) (*yang.Entry, []ChoiceStep) {
	var steps []ChoiceStep
	for _, p := range path {
		var s []ChoiceStep
		e, s = childEntry(e, p)
		if e == nil {
			return nil, nil
		}
		steps = append(steps, s...)
	}
	return e, steps
}

func isConfig(e *yang.Entry) bool {
	for ; e != nil; e = e.Parent {
		switch e.Config {
		case yang.TSFalse:
			return false
		case yang.TSTrue:
			return true
		}
	}
	return true
}

var (
	goStructT   = reflect.TypeOf((*ygot.GoStruct)(nil)).Elem()
	goEnumT     = reflect.TypeOf((*ygot.GoEnum)(nil)).Elem()
	orderedMapT = reflect.TypeOf((*ygot.GoOrderedMap)(nil)).Elem()
)

// IsOrderedMapType reports whether t (pointer type) is a generated ordered map.
func IsOrderedMapType(t reflect.Type) bool {
	return t.Kind() == reflect.Ptr && t.Implements(orderedMapT)
}

func (v *Variant) structInfo(t reflect.Type, e *yang.Entry, depth int, isEntry bool) (*StructInfo, error) {
	if si, ok := v.Structs[t]; ok {
		return si, nil
	}
	si := &StructInfo{V: v, T: t, Entry: e, ByName: map[string]*FieldInfo{}, IsEntry: isEntry, Depth: depth}
	v.Structs[t] = si
	pt := reflect.PtrTo(t)
	for i := 0; i < pt.NumMethod(); i++ {
		m := pt.Method(i)
		if strings.HasPrefix(m.Name, "To_") {
			v.toFuncs[strings.TrimPrefix(m.Name, "To_")] = t
		}
	}
	keyNames := map[string]bool{}
	if isEntry {
		for _, k := range strings.Fields(e.Key) {
			keyNames[k] = true
		}
	}
	for i := 0; i < t.NumField(); i++ {
		sf := t.Field(i)
		ptag := sf.Tag.Get("path")
		if ptag == "" {
			continue // annotation fields
		}
		f := &FieldInfo{Owner: si, Name: sf.Name, Index: i, GoType: sf.Type, Paths: splitAlts(ptag),
			Shadow: splitAlts(sf.Tag.Get("shadow-path")), Modules: splitAlts(sf.Tag.Get("module")),
			Presence: sf.Tag.Get("yangPresence") == "true"}
		fe, steps := walkEntry(e, f.Paths[0])
		if fe == nil {
			return nil, errf("struct %s field %s: path %v not found in goyang tree under %s", t.Name(), sf.Name, f.Paths[0], e.Path())
		}
		f.Entry, f.Choices, f.Config = fe, steps, isConfig(fe)
		ft := sf.Type
		switch {
		case ft.Kind() == reflect.Ptr && ft.Elem().Kind() == reflect.Struct && IsOrderedMapType(ft):
			f.Kind, f.Ordered = FOrdList, true
			// element struct type: the return type of Get
			m, ok := ft.MethodByName("Values")
			if !ok {
				return nil, errf("ordered map %s has no Values", ft)
			}
			et := m.Type.Out(0).Elem().Elem()
			var err error
			if f.Child, err = v.structInfo(et, fe, depth+1, true); err != nil {
				return nil, err
			}
			kf, _ := ft.Elem().FieldByName("keys")
			f.KeyType = kf.Type.Elem()
		case ft.Kind() == reflect.Ptr && ft.Elem().Kind() == reflect.Struct:
			f.Kind = FCont
			var err error
			if f.Child, err = v.structInfo(ft.Elem(), fe, depth+1, false); err != nil {
				return nil, err
			}
		case ft.Kind() == reflect.Map:
			f.Kind = FList
			f.KeyType = ft.Key()
			var err error
			if f.Child, err = v.structInfo(ft.Elem().Elem(), fe, depth+1, true); err != nil {
				return nil, err
			}
		case ft.Kind() == reflect.Slice && ft.Elem().Kind() == reflect.Ptr && ft.Elem().Elem().Kind() == reflect.Struct && ft.Elem().Implements(goStructT):
			f.Kind = FUList
			var err error
			if f.Child, err = v.structInfo(ft.Elem().Elem(), fe, depth+1, false); err != nil {
				return nil, err
			}
		case ft.Kind() == reflect.Slice && !(ft.Name() == "Binary"):
			f.Kind = FLeafList
			f.ElemUnion = ft.Elem().Kind() == reflect.Interface
		default:
			f.Kind = FLeaf
			f.ElemUnion = ft.Kind() == reflect.Interface
			if ft.Name() == "Binary" && v.BinaryType == nil {
				v.BinaryType = ft
			}
			if ft.Name() == "YANGEmpty" && v.EmptyType == nil {
				v.EmptyType = ft
			}
		}
		if fe.ListAttr != nil {
			f.Min, f.Max = fe.ListAttr.MinElements, fe.ListAttr.MaxElements
			if f.Max == ^uint64(0) {
				f.Max = 0
			}
		}
		if f.Kind == FLeaf || f.Kind == FLeafList {
			lt, err := v.resolveType(fe, fe.Type, f, 0)
			if err != nil {
				return nil, errf("struct %s field %s: %v", t.Name(), sf.Name, err)
			}
			f.Type = lt
			if isEntry && f.Kind == FLeaf {
				for _, p := range f.Paths {
					if len(p) == 1 && keyNames[p[0]] {
						f.IsKey = true
					}
				}
			}
		}
		if f.Kind == FList || f.Kind == FOrdList {
			f.KeyNames = strings.Fields(fe.Key)
		}
		si.Fields = append(si.Fields, f)
		si.ByName[f.Name] = f
	}
	// resolve key fields of child lists
	for _, f := range si.Fields {
		if f.Kind == FList || f.Kind == FOrdList {
			for _, kn := range f.KeyNames {
				var kf *FieldInfo
				for _, cf := range f.Child.Fields {
					if cf.Kind != FLeaf {
						continue
					}
					for _, p := range cf.Paths {
						if len(p) == 1 && p[0] == kn {
							kf = cf
						}
					}
				}
				if kf == nil {
					return nil, errf("list %s.%s: key leaf %s not found in %s", t.Name(), f.Name, kn, f.Child.T.Name())
				}
				f.KeyFields = append(f.KeyFields, kf)
			}
		}
	}
	return si, nil
}

// ModuleOf returns the name of the module e belongs to (the augmenting module for augmented nodes).
func (v *Variant) ModuleOf(e *yang.Entry) string {
	ns := e.Namespace()
	if ns == nil {
		return ""
	}
	m, err := v.Mods.FindModuleByNamespace(ns.Name)
	if err != nil || m == nil {
		return ""
	}
	if m.BelongsTo != nil {
		return m.BelongsTo.Name
	}
	return m.Name
}

// resolveType flattens a goyang type into an LType, following leafrefs to their target leaf's type.
func (v *Variant) resolveType(ctx *yang.Entry, y *yang.YangType, f *FieldInfo, depth int) (*LType, error) {
	if y == nil {
		return nil, errf("nil type at %s", ctx.Path())
	}
	if depth > 10 {
		return nil, errf("type recursion at %s", ctx.Path())
	}
	lt := &LType{Kind: y.Kind, Y: y, FD: y.FractionDigits, Range: y.Range, Length: y.Length, Patterns: y.Pattern, Posix: y.POSIXPattern}
	switch y.Kind {
	case yang.Yleafref:
		tgt := findLeafrefTarget(ctx, y.Path)
		if tgt == nil {
			return nil, errf("leafref %q at %s: target not found", y.Path, ctx.Path())
		}
		r, err := v.resolveType(tgt, tgt.Type, f, depth+1)
		if err != nil {
			return nil, err
		}
		cp := *r
		cp.Leafref, cp.Target = y.Path, tgt
		return &cp, nil
	case yang.Yunion:
		for _, m := range y.Type {
			r, err := v.resolveType(ctx, m, f, depth+1)
			if err != nil {
				return nil, err
			}
			if r.IsUnion() {
				lt.Members = append(lt.Members, r.Members...)
			} else {
				lt.Members = append(lt.Members, r)
			}
		}
	case yang.Yenum:
		names := y.Enum.NameMap()
		gt, members := v.goEnumFor(f, func(defs map[int64]ygot.EnumDefinition) bool {
			if len(defs) != len(names) {
				return false
			}
			for _, d := range defs {
				if _, ok := names[d.Name]; !ok {
					return false
				}
			}
			return true
		})
		if gt == nil {
			return nil, errf("no Go enum type found for enumeration at %s (names %v)", ctx.Path(), y.Enum.Names())
		}
		for i := range members {
			members[i].YangVal = names[members[i].Name]
		}
		lt.GoEnum, lt.Enum = gt, members
	case yang.Yidentityref:
		lt.Ident = true
		if y.IdentityBase == nil {
			return nil, errf("identityref without base at %s", ctx.Path())
		}
		want := map[string]bool{}
		for _, id := range y.IdentityBase.Values {
			want[id.Name] = true
		}
		gt, members := v.goEnumFor(f, func(defs map[int64]ygot.EnumDefinition) bool {
			if len(defs) != len(want) {
				return false
			}
			for _, d := range defs {
				if !want[d.Name] {
					return false
				}
			}
			return true
		})
		if gt == nil {
			return nil, errf("no Go enum type found for identityref at %s (base %s)", ctx.Path(), y.IdentityBase.Name)
		}
		lt.GoEnum, lt.Enum = gt, members
	}
	return lt, nil
}

// goEnumFor finds the Go enum type for an enumerated (member) type of field f: the field's own Go
// type when it is an enum, otherwise (unions) the candidate of the package whose name set matches.
func (v *Variant) goEnumFor(f *FieldInfo, match func(map[int64]ygot.EnumDefinition) bool) (reflect.Type, []EnumMember) {
	var cands []reflect.Type
	ft := f.GoType
	if ft.Kind() == reflect.Slice {
		ft = ft.Elem()
	}
	if ft.Kind() == reflect.Int64 && ft.Implements(goEnumT) {
		cands = append(cands, ft)
	} else {
		iface := ft.Kind() == reflect.Interface
		names := sortedKeys(v.enumAll)
		// first the types the generated code itself lists for this leaf's schema path
		// (data-tree path below the module: choice and case nodes are not part of it)
		var dp []string
		for e := f.Entry; e != nil && e.Parent != nil; e = dataParent(e) {
			dp = append([]string{e.Name}, dp...)
		}
		if len(dp) > 0 {
			cands = append(cands, v.EnumTypes["/"+strings.Join(dp, "/")]...)
		}
		// prefer types that implement the (simple) union interface, then any matching type
		for _, n := range names {
			if t := v.enumAll[n]; iface && t.Implements(ft) {
				cands = append(cands, t)
			}
		}
		for _, n := range names {
			cands = append(cands, v.enumAll[n])
		}
	}
	for _, c := range cands {
		defs, ok := v.Enum[c.Name()]
		if !ok || !match(defs) {
			continue
		}
		var ms []EnumMember
		for gv, d := range defs {
			ms = append(ms, EnumMember{Name: d.Name, Mod: d.DefiningModule, GoVal: gv})
		}
		sort.Slice(ms, func(i, j int) bool { return ms[i].GoVal < ms[j].GoVal })
		return c, ms
	}
	return nil, nil
}

// findLeafrefTarget resolves a leafref path expression against the schema tree.
func findLeafrefTarget(ctx *yang.Entry, path string) *yang.Entry {
	steps := ParseLeafrefPath(path)
	cur := ctx
	if steps.Absolute {
		for cur.Parent != nil {
			cur = cur.Parent
		}
		// cur is the module entry of ctx; absolute paths may name nodes of any module: search all
	}
	for i, st := range steps.Steps {
		if st.Up {
			cur = dataParent(cur)
			if cur == nil {
				return nil
			}
			continue
		}
		var next *yang.Entry
		if steps.Absolute && i == 0 {
			next = findTop(ctx, st.Name)
		} else {
			next, _ = childEntry(cur, st.Name)
		}
		if next == nil {
			return nil
		}
		cur = next
	}
	return cur
}

// dataParent returns the nearest ancestor that is a data node (skipping choice/case).
func dataParent(e *yang.Entry) *yang.Entry {
	p := e.Parent
	for p != nil && (p.IsChoice() || p.IsCase()) {
		p = p.Parent
	}
	return p
}

func findTop(ctx *yang.Entry, name string) *yang.Entry {
	root := ctx
	for root.Parent != nil {
		root = root.Parent
	}
	if c, _ := childEntry(root, name); c != nil {
		return c
	}
	return nil
}

// LeafrefStep is one step of a leafref path.
type LeafrefStep struct {
	Up      bool
	Name    string
	PredKey string   // key name in a [key = current()/../x] predicate
	PredRel []string // the relative path after current(), e.g. ["..", "target"]
}

// LeafrefPath is a parsed leafref path of the subset the corpus uses.
type LeafrefPath struct {
	Absolute bool
	Steps    []LeafrefStep
}

func stripPrefix(s string) string {
	if i := strings.Index(s, ":"); i >= 0 {
		return s[i+1:]
	}
	return s
}

// ParseLeafrefPath parses absolute/relative leafref paths with at most one predicate per step.
func ParseLeafrefPath(p string) LeafrefPath {
	var r LeafrefPath
	p = strings.TrimSpace(p)
	if strings.HasPrefix(p, "/") {
		r.Absolute = true
		p = p[1:]
	}
	// split on '/' outside brackets
	var parts []string
	depth, start := 0, 0
	for i := 0; i < len(p); i++ {
		switch p[i] {
		case '[':
			depth++
		case ']':
			depth--
		case '/':
			if depth == 0 {
				parts = append(parts, p[start:i])
				start = i + 1
			}
		}
	}
	parts = append(parts, p[start:])
	for _, part := range parts {
		part = strings.TrimSpace(part)
		if part == ".." {
			r.Steps = append(r.Steps, LeafrefStep{Up: true})
			continue
		}
		st := LeafrefStep{}
		if i := strings.Index(part, "["); i >= 0 {
			pred := strings.TrimSuffix(part[i+1:], "]")
			part = part[:i]
			kv := strings.SplitN(pred, "=", 2)
			st.PredKey = stripPrefix(strings.TrimSpace(kv[0]))
			rel := strings.TrimSpace(kv[1])
			rel = strings.TrimPrefix(rel, "current()")
			rel = strings.TrimPrefix(rel, "/")
			for _, x := range strings.Split(rel, "/") {
				st.PredRel = append(st.PredRel, stripPrefix(strings.TrimSpace(x)))
			}
		}
		st.Name = stripPrefix(part)
		r.Steps = append(r.Steps, st)
	}
	return r
}
