package model

import (
	"fmt"

	"pgregory.net/rapid"
)

// GenEntry draws a new entry for list field f whose key differs from the keys in `existing`
// (nil if no fresh key was found).
func GenEntry(t *rapid.T, f *FieldInfo, o GenOpts, existing []*Entry) *Entry {
	o.defaults()
	g := &genCtx{t: t, o: o, v: f.Owner.V}
	seen := map[string]bool{}
	for _, e := range existing {
		seen[KeyLoose(e.Key)] = true
	}
	for tries := 0; tries < 10; tries++ {
		key := make([]Val, len(f.KeyFields))
		for i, kf := range f.KeyFields {
			key[i] = g.fvalue(kf, f.Name+"."+kf.Name)
		}
		if !seen[KeyLoose(key)] {
			return g.entry(f, key)
		}
	}
	return nil
}

// choiceFree says whether populating field f of node n keeps at most one case per choice.
func choiceFree(n *Node, f *FieldInfo) bool {
	if len(f.Choices) == 0 {
		return true
	}
	populated := func(o *FieldInfo) bool {
		switch o.Kind {
		case FLeaf:
			_, ok := n.Leaf[o.Name]
			return ok
		case FLeafList:
			return len(n.LL[o.Name]) > 0
		case FCont:
			_, ok := n.Cont[o.Name]
			return ok
		case FList, FOrdList:
			return len(n.List[o.Name]) > 0
		case FUList:
			return len(n.UList[o.Name]) > 0
		}
		return false
	}
	for _, o := range n.SI.Fields {
		if o == f || len(o.Choices) == 0 || !populated(o) {
			continue
		}
		for i := 0; i < len(o.Choices) && i < len(f.Choices); i++ {
			if o.Choices[i].Choice != f.Choices[i].Choice {
				break
			}
			if o.Choices[i].Case != f.Choices[i].Case {
				return false
			}
		}
	}
	return true
}

// MutOpts steers Mutate.
type MutOpts struct {
	Gen        GenOpts
	NoOrdered  bool // leave ordered lists untouched
	NoUnkeyed  bool
	NoKeyLeaf  bool // never touch key leaves (always true in effect: key leaves are never edited)
	KeepLeafrefs bool // do not re-satisfy leafrefs afterwards
}

// Mutate applies k random edits to a clone of m and returns it together with a description of the
// edits: set / change / clear a leaf, change a leaf-list, add / remove a list entry, permute or edit
// an ordered list, add / remove a container. The result is again schema-conforming.
func Mutate(t *rapid.T, v *Variant, m *Node, k int, o MutOpts) (*Node, []string) {
	o.Gen.defaults()
	out := m.Clone()
	var log []string
	for i := 0; i < k; i++ {
		sites := Sites(out)
		s := sites[rapid.IntRange(0, len(sites)-1).Draw(t, "mut.site")]
		n := s.N
		if len(n.SI.Fields) == 0 {
			continue
		}
		f := n.SI.Fields[rapid.IntRange(0, len(n.SI.Fields)-1).Draw(t, "mut.field")]
		if o.Gen.Skip != nil && o.Gen.Skip(f) {
			continue
		}
		where := ElemsID(s.Elems) + "/" + f.Name
		switch f.Kind {
		case FLeaf:
			if f.IsKey {
				continue
			}
			if _, set := n.Leaf[f.Name]; set && rapid.IntRange(0, 2).Draw(t, "mut.clear") == 0 {
				delete(n.Leaf, f.Name)
				log = append(log, "clear "+where)
				continue
			}
			if !choiceFree(n, f) {
				continue
			}
			nv := GenVal(t, v, f.Type, o.Gen, "mut.val")
			n.Leaf[f.Name] = nv
			log = append(log, fmt.Sprintf("set %s = %s", where, nv))
		case FLeafList:
			if len(n.LL[f.Name]) > 0 && rapid.IntRange(0, 2).Draw(t, "mut.clear") == 0 {
				delete(n.LL, f.Name)
				log = append(log, "clear "+where)
				continue
			}
			if !choiceFree(n, f) {
				continue
			}
			g := &genCtx{t: t, o: o.Gen, v: v}
			tmp := NewNode(n.SI)
			lo, hi := 1, o.Gen.MaxLL
			if f.Min > 0 {
				lo = int(f.Min)
			}
			if f.Max > 0 && int(f.Max) < hi {
				hi = int(f.Max)
			}
			if hi < lo {
				hi = lo
			}
			cnt := rapid.IntRange(lo, hi).Draw(t, "mut.ll#")
			seen := map[string]bool{}
			var l []Val
			for tries := 0; len(l) < cnt && tries < cnt*6; tries++ {
				x := g.fvalue(f, "mut.ll")
				if f.Config && seen[x.LooseCanon()] {
					continue
				}
				seen[x.LooseCanon()] = true
				l = append(l, x)
			}
			_ = tmp
			if len(l) >= lo {
				n.LL[f.Name] = l
				log = append(log, fmt.Sprintf("set %s = %v", where, l))
			}
		case FCont:
			if _, ok := n.Cont[f.Name]; ok {
				if rapid.IntRange(0, 3).Draw(t, "mut.rmcont") == 0 {
					delete(n.Cont, f.Name)
					log = append(log, "remove container "+where)
				}
				continue
			}
			if !choiceFree(n, f) {
				continue
			}
			c := GenNode(t, f.Child, o.Gen)
			if f.Presence || !c.IsEmpty(true) {
				n.Cont[f.Name] = c
				log = append(log, "add container "+where)
			}
		case FList, FOrdList:
			if f.Kind == FOrdList && o.NoOrdered {
				continue
			}
			l := n.List[f.Name]
			op := rapid.IntRange(0, 3).Draw(t, "mut.listop")
			switch {
			case op == 0 && len(l) > 0 && (f.Min == 0 || uint64(len(l)) > f.Min):
				j := rapid.IntRange(0, len(l)-1).Draw(t, "mut.rm")
				log = append(log, fmt.Sprintf("remove entry %s[%s]", where, KeyCanon(l[j].Key)))
				l = append(append([]*Entry(nil), l[:j]...), l[j+1:]...)
			case op == 1 && f.Kind == FOrdList && len(l) > 1:
				perm := rapid.Permutation(l).Draw(t, "mut.perm")
				l = perm
				log = append(log, "permute "+where)
			default:
				if f.Max > 0 && uint64(len(l)) >= f.Max {
					continue
				}
				if !choiceFree(n, f) {
					continue
				}
				e := GenEntry(t, f, o.Gen, l)
				if e == nil {
					continue
				}
				pos := len(l)
				if f.Kind == FOrdList {
					pos = rapid.IntRange(0, len(l)).Draw(t, "mut.pos")
				}
				l = append(append(append([]*Entry(nil), l[:pos]...), e), l[pos:]...)
				log = append(log, fmt.Sprintf("add entry %s[%s]", where, KeyCanon(e.Key)))
			}
			if len(l) == 0 {
				delete(n.List, f.Name)
			} else {
				n.List[f.Name] = l
			}
		case FUList:
			if o.NoUnkeyed || o.Gen.NoUnkeyed {
				continue
			}
			l := n.UList[f.Name]
			if len(l) > 0 && rapid.Bool().Draw(t, "mut.urm") {
				n.UList[f.Name] = l[:len(l)-1]
				if len(l) == 1 {
					delete(n.UList, f.Name)
				}
				log = append(log, "remove last unkeyed entry "+where)
			} else {
				n.UList[f.Name] = append(l, GenNode(t, f.Child, o.Gen))
				log = append(log, "append unkeyed entry "+where)
			}
		}
	}
	if !o.KeepLeafrefs {
		FixLeafrefs(t, v, out, LRSatisfy)
	}
	return out.Normalize(), log
}
