package model

import (
	"encoding/base64"
	"math/big"
	"regexp"
	"strconv"
	"strings"
	"unicode/utf8"

	"github.com/openconfig/goyang/pkg/yang"
	"pgregory.net/rapid"
)

// GenOpts steers the tree generator. The zero value gives schema-conforming trees ("valid by
// construction" except for leafrefs, which FixLeafrefs settles afterwards).
type GenOpts struct {
	MaxList      int  // max entries per list (default 3)
	MaxLL        int  // max leaf-list length (default 4)
	PlainStrings bool // only [a-z0-9] in free strings
	NoUnkeyed    bool // never populate unkeyed lists
	NoOrdered    bool // never populate ordered lists
	NoState      bool // never populate config-false fields
	Dense        bool // bias toward populated trees
	Sparse       bool // bias toward small trees
	AllowDupLL   bool // allow duplicate values in config leaf-lists (invalid per YANG)
	AnyChoice    bool // do not enforce one case per choice (invalid per YANG)
	EmptyLLs     bool // sometimes build non-nil empty leaf-lists (C02 only)
	EmptyLLPct   int  // probability (percent) of an empty non-nil leaf-list when EmptyLLs (default 15)
	Rare         func(*FieldInfo) bool // fields populated with ~1/8 of the usual probability (open findings)
	Skip         func(*FieldInfo) bool
	Want         func(*FieldInfo) bool // fields that should be populated with high probability
	MaxDec       int                   // max significant bits of |scaled decimal| (default 49)
	// Avoid marks values in the trigger region of an open known finding: such values are re-drawn
	// (a few times) so that the search is not dominated by the finding; they still occur occasionally.
	Avoid func(*FieldInfo, Val) bool
}

func (o *GenOpts) defaults() {
	if o.MaxList == 0 {
		o.MaxList = 3
	}
	if o.MaxLL == 0 {
		o.MaxLL = 4
	}
	if o.MaxDec == 0 {
		o.MaxDec = 49
	}
	if o.EmptyLLPct == 0 {
		o.EmptyLLPct = 15
	}
}

type genCtx struct {
	t *rapid.T
	o GenOpts
	v *Variant
}

// GenTree draws a tree for the variant's root.
func GenTree(t *rapid.T, v *Variant, o GenOpts) *Node {
	v.MustInit()
	o.defaults()
	g := &genCtx{t: t, o: o, v: v}
	n := g.node(v.Root, nil)
	FixLeafrefs(t, v, n, LRSatisfy)
	return n.Normalize()
}

// GenNode draws a subtree for one struct type (no leafref fixing).
func GenNode(t *rapid.T, si *StructInfo, o GenOpts) *Node {
	o.defaults()
	g := &genCtx{t: t, o: o, v: si.V}
	return g.node(si, nil).Normalize()
}

func (g *genCtx) pct(label string) int { return rapid.IntRange(0, 99).Draw(g.t, label) }

func (g *genCtx) density() int {
	switch {
	case g.o.Dense:
		return rapid.SampledFrom([]int{40, 70, 95}).Draw(g.t, "density")
	case g.o.Sparse:
		return rapid.SampledFrom([]int{5, 15, 35}).Draw(g.t, "density")
	}
	return rapid.SampledFrom([]int{8, 25, 50, 85}).Draw(g.t, "density")
}

// node generates content for struct si. fixed holds pre-set key leaves (list entries).
func (g *genCtx) node(si *StructInfo, fixed map[string]Val) *Node {
	n := NewNode(si)
	d := g.density()
	chosen := map[string]string{} // choice id -> case
	for _, f := range si.Fields {
		if v, ok := fixed[f.Name]; ok {
			n.Leaf[f.Name] = v
			continue
		}
		if g.o.Skip != nil && g.o.Skip(f) {
			continue
		}
		if g.o.NoState && !f.Config {
			continue
		}
		p := d
		if g.o.Want != nil && g.o.Want(f) {
			p = 92
		}
		if g.o.Rare != nil && g.o.Rare(f) {
			p = (p + 7) / 8
		}
		if g.pct(f.Name+"?") >= p {
			continue
		}
		// choice exclusivity
		if !g.o.AnyChoice && len(f.Choices) > 0 {
			ok, id := true, ""
			for _, st := range f.Choices {
				id += "/" + st.Choice
				if c, have := chosen[id]; have && c != st.Case {
					ok = false
					break
				}
				id += ":" + st.Case
			}
			if !ok {
				continue
			}
			id = ""
			for _, st := range f.Choices {
				id += "/" + st.Choice
				chosen[id] = st.Case
				id += ":" + st.Case
			}
		}
		switch f.Kind {
		case FLeaf:
			n.Leaf[f.Name] = g.fvalue(f, f.Name)
		case FLeafList:
			lo, hi := 1, g.o.MaxLL
			if f.Min > 0 {
				lo = int(f.Min)
			}
			if f.Max > 0 && int(f.Max) < hi {
				hi = int(f.Max)
			}
			if hi < lo {
				hi = lo
			}
			if g.o.EmptyLLs && f.Min == 0 && g.pct("emptyll") < g.o.EmptyLLPct {
				n.EmptyLL[f.Name] = true
				continue
			}
			cnt := rapid.IntRange(lo, hi).Draw(g.t, f.Name+"#")
			seen := map[string]bool{}
			var l []Val
			for tries := 0; len(l) < cnt && tries < cnt*6; tries++ {
				v := g.fvalue(f, f.Name)
				if f.Config && !g.o.AllowDupLL && seen[v.LooseCanon()] {
					continue
				}
				seen[v.LooseCanon()] = true
				l = append(l, v)
			}
			if len(l) >= lo {
				n.LL[f.Name] = l
			}
		case FCont:
			n.Cont[f.Name] = g.node(f.Child, nil)
		case FList, FOrdList:
			if f.Kind == FOrdList && g.o.NoOrdered {
				continue
			}
			n.List[f.Name] = g.list(f)
		case FUList:
			if g.o.NoUnkeyed {
				continue
			}
			ulo, uhi := 1, g.o.MaxList
			if f.Min > 0 {
				ulo = int(f.Min)
			}
			if f.Max > 0 && int(f.Max) < uhi {
				uhi = int(f.Max)
			}
			if uhi < ulo {
				uhi = ulo
			}
			cnt := rapid.IntRange(ulo, uhi).Draw(g.t, f.Name+"#")
			for i := 0; i < cnt; i++ {
				n.UList[f.Name] = append(n.UList[f.Name], g.node(f.Child, nil))
			}
		}
	}
	return n
}

func (g *genCtx) list(f *FieldInfo) []*Entry {
	lo, hi := 1, g.o.MaxList
	if f.Min > 0 {
		lo = int(f.Min)
	}
	if f.Max > 0 && int(f.Max) < hi {
		hi = int(f.Max)
	}
	if hi < lo {
		hi = lo
	}
	cnt := rapid.IntRange(lo, hi).Draw(g.t, f.Name+"#")
	seen := map[string]bool{}
	var out []*Entry
	// now and then a cluster of number-like string keys ("9", "10", "1a", ...): orderings that treat numbers
	// and text differently disagree on them
	numberish := false
	if len(f.KeyFields) == 1 && !g.o.PlainStrings {
		if lt := f.KeyFields[0].Type; lt != nil && lt.VKind() == KStr && len(lt.Patterns) == 0 && len(lt.Length) == 0 && len(lt.Members) == 0 && lt.Leafref == "" {
			if rapid.IntRange(0, 5).Draw(g.t, f.Name+".numberish") == 0 {
				numberish = true
				if f.Max == 0 || f.Max >= 4 {
					cnt = rapid.IntRange(3, 5).Draw(g.t, f.Name+"#n")
				}
			}
		}
	}
	// lists with two or more plain string keys: now and then two entries whose key tuples read the same when
	// the values are joined by a separator ("a b","c" / "a","b c"): anything that identifies an entry by a
	// joined key string confuses them
	var ambiguous [][]Val
	if len(f.KeyFields) >= 2 && !g.o.PlainStrings && (f.Max == 0 || f.Max >= 2) {
		plain := func(kf *FieldInfo) bool {
			lt := kf.Type
			return lt != nil && lt.VKind() == KStr && len(lt.Patterns) == 0 && len(lt.Length) == 0 && len(lt.Members) == 0 && lt.Leafref == ""
		}
		if plain(f.KeyFields[0]) && plain(f.KeyFields[1]) && rapid.IntRange(0, 5).Draw(g.t, f.Name+".ambiguous") == 0 {
			sep := rapid.SampledFrom([]string{" ", ",", "/", "_", ":"}).Draw(g.t, f.Name+".sep")
			k1, k2 := make([]Val, len(f.KeyFields)), make([]Val, len(f.KeyFields))
			for i, kf := range f.KeyFields {
				k1[i] = g.fvalue(kf, f.Name+"."+kf.Name+".amb")
				k2[i] = k1[i]
			}
			k1[0], k1[1] = Val{K: KStr, S: "zone" + sep + "a"}, Val{K: KStr, S: "b"}
			k2[0], k2[1] = Val{K: KStr, S: "zone"}, Val{K: KStr, S: "a" + sep + "b"}
			ambiguous = [][]Val{k1, k2}
			if cnt < 2 {
				cnt = 2
			}
		}
	}
	for tries := 0; len(out) < cnt && tries < cnt*8; tries++ {
		key := make([]Val, len(f.KeyFields))
		for i, kf := range f.KeyFields {
			key[i] = g.fvalue(kf, f.Name+"."+kf.Name)
		}
		if len(ambiguous) > 0 {
			key, ambiguous = ambiguous[0], ambiguous[1:]
		}
		if numberish {
			key[0] = Val{K: KStr, S: rapid.SampledFrom([]string{"9", "10", "1a", "2", "11", "1", "a1", "01", "100", "9a"}).Draw(g.t, f.Name+".nk")}
		}
		kc := KeyLoose(key)
		if seen[kc] {
			continue
		}
		seen[kc] = true
		out = append(out, g.entry(f, key))
	}
	if len(out) < lo {
		return nil
	}
	return out
}

// entry builds a list entry with the given key: key leaves set, in-entry leafref targets aligned.
func (g *genCtx) entry(f *FieldInfo, key []Val) *Entry {
	fixed := map[string]Val{}
	for i, kf := range f.KeyFields {
		fixed[kf.Name] = key[i]
	}
	n := g.node(f.Child, fixed)
	AlignKeyTargets(f, n, key)
	return &Entry{Key: key, N: n}
}

// NewEntry makes a minimal entry (key leaves only, in-entry leafref targets aligned).
func NewEntry(f *FieldInfo, key []Val) *Entry {
	n := NewNode(f.Child)
	for i, kf := range f.KeyFields {
		n.Leaf[kf.Name] = key[i]
	}
	AlignKeyTargets(f, n, key)
	return &Entry{Key: key, N: n}
}

// AlignKeyTargets sets the targets of key leaves that are leafrefs into their own entry
// (OpenConfig's `key -> ../config/key`) to the key value.
func AlignKeyTargets(f *FieldInfo, n *Node, key []Val) {
	for i, kf := range f.KeyFields {
		if kf.Type.Leafref == "" {
			continue
		}
		lp := ParseLeafrefPath(kf.Type.Leafref)
		if lp.Absolute || len(lp.Steps) < 2 || !lp.Steps[0].Up || lp.Steps[1].Up {
			continue
		}
		var rel []string
		for _, s := range lp.Steps[1:] {
			rel = append(rel, s.Name)
		}
		SetByRelPath(n, rel, key[i])
	}
}

// SetByRelPath sets the leaf at schema path rel below n (creating containers). Reports success.
func SetByRelPath(n *Node, rel []string, v Val) bool {
	for _, f := range n.SI.Fields {
		for _, p := range f.Paths {
			if len(p) > len(rel) || !eqStrs(p, rel[:len(p)]) {
				continue
			}
			switch {
			case f.Kind == FLeaf && len(p) == len(rel):
				n.Leaf[f.Name] = v
				return true
			case f.Kind == FCont && len(p) < len(rel):
				c := n.Cont[f.Name]
				if c == nil {
					c = NewNode(f.Child)
					n.Cont[f.Name] = c
				}
				return SetByRelPath(c, rel[len(p):], v)
			}
		}
	}
	return false
}

func eqStrs(a, b []string) bool {
	if len(a) != len(b) {
		return false
	}
	for i := range a {
		if a[i] != b[i] {
			return false
		}
	}
	return true
}

// ---- values -----------------------------------------------------------------------------------------

// GenVal draws a value of the leaf type.
func GenVal(t *rapid.T, v *Variant, lt *LType, o GenOpts, label string) Val {
	o.defaults()
	g := &genCtx{t: t, o: o, v: v}
	return g.value(lt, label)
}

// fvalue draws a value for field f, steering away from Avoid regions.
func (g *genCtx) fvalue(f *FieldInfo, label string) Val {
	v := g.value(f.Type, label)
	if g.o.Avoid == nil {
		return v
	}
	for tries := 0; tries < 4 && g.o.Avoid(f, v); tries++ {
		v = g.value(f.Type, label)
	}
	return v
}

func (g *genCtx) value(lt *LType, label string) Val {
	if lt.IsUnion() {
		for tries := 0; tries < 20; tries++ {
			i := rapid.IntRange(0, len(lt.Members)-1).Draw(g.t, label+".member")
			v := g.scalar(lt.Members[i], label)
			if UnionCanonical(lt, i, v) {
				return v
			}
		}
		return g.scalar(lt.Members[0], label)
	}
	return g.scalar(lt, label)
}

// UnionCanonical says whether value v of member i is the value its lexical form denotes in the union
// (RFC 7950 9.12: the first member type that accepts the lexical form wins).
func UnionCanonical(lt *LType, i int, v Val) bool {
	lex := v.Lexical()
	for j := 0; j < i; j++ {
		if AcceptsLexical(lt.Members[j], lex) {
			return false
		}
	}
	return true
}

var patternCache = map[string]*regexp.Regexp{}

// AcceptsLexical says whether the lexical form s is in the value space of the (non-union) type lt.
// Generator-side plumbing only (it decides which union values are in the domain).
func AcceptsLexical(lt *LType, s string) bool {
	k := lt.VKind()
	switch {
	case k.Signed() || k.Unsigned():
		x, ok := new(big.Int).SetString(s, 10)
		if !ok || (len(s) > 1 && s[0] == '+') {
			return false
		}
		lo, hi := kindBounds(k)
		if x.Cmp(lo) < 0 || x.Cmp(hi) > 0 {
			return false
		}
		return InRange(lt.Range, x, 0)
	}
	switch k {
	case KDec:
		m := decRe.FindStringSubmatch(s)
		if m == nil || len(m[3]) > lt.FD {
			return false
		}
		x, _ := new(big.Int).SetString(m[1]+m[2]+m[3]+strings.Repeat("0", lt.FD-len(m[3])), 10)
		return InRange(lt.Range, x, lt.FD)
	case KStr:
		if !LenOK(lt.Length, utf8.RuneCountInString(s)) {
			return false
		}
		for _, p := range lt.Patterns {
			re := patternCache[p]
			if re == nil {
				re = regexp.MustCompile("^(?:" + p + ")$")
				patternCache[p] = re
			}
			if !re.MatchString(s) {
				return false
			}
		}
		return true
	case KBool:
		return s == "true" || s == "false"
	case KEmpty:
		return false
	case KBin:
		b, err := base64.StdEncoding.DecodeString(s)
		return err == nil && LenOK(lt.Length, len(b))
	case KEnum:
		for _, m := range lt.Enum {
			if m.Name == s || (lt.Ident && stripPrefix(s) == m.Name) {
				return true
			}
		}
	}
	return false
}

var decRe = regexp.MustCompile(`^(-?)([0-9]+)(?:\.([0-9]+))?$`)

var (
	plainAlphabet = []rune("abcxyz019")
	// hostileStrings are whole values with a meaning somewhere in path handling: the wildcard, relative
	// path elements, separators and brackets on their own, values that look like escapes or keys.
	hostileStrings = []string{"*", "**", "...", "..", ".", "/", "//", "[", "]", "=", "\\", "*/*", "a/../b", "x]y/z", "[k=v]", "a=b", " ", "true", "0", "-1", "null"}
	fullAlphabet   = []rune("abcXYZ019 _-./:[]=\\\"'<>&*@#{},\té世 \U0001F600")
)

func (g *genCtx) scalar(lt *LType, label string) Val {
	k := lt.VKind()
	switch {
	case k.Signed() || k.Unsigned():
		x := g.intIn(k, lt.Range, label)
		if k.Signed() {
			return Val{K: k, I: x.Int64()}
		}
		return Val{K: k, U: x.Uint64()}
	}
	switch k {
	case KDec:
		sc := g.decIn(lt, label)
		return Val{K: KDec, F: DecFloat(sc, lt.FD), FD: lt.FD}
	case KStr:
		return Val{K: KStr, S: g.str(lt, label)}
	case KBool:
		return Val{K: KBool, Bool: rapid.Bool().Draw(g.t, label)}
	case KEmpty:
		return Val{K: KEmpty}
	case KBin:
		lo, hi := lenBounds(lt.Length, 0, 6)
		n := rapid.IntRange(lo, hi).Draw(g.t, label+".len")
		b := make([]byte, n)
		for i := range b {
			b[i] = rapid.Byte().Draw(g.t, label+".b")
		}
		return Val{K: KBin, B: b}
	case KEnum:
		m := lt.Enum[rapid.IntRange(0, len(lt.Enum)-1).Draw(g.t, label+".enum")]
		return EnumVal(lt, m)
	}
	panic("HARNESS-BUG: cannot generate value of kind " + lt.Kind.String())
}

// EnumVal makes the value of enum member m of lt.
func EnumVal(lt *LType, m EnumMember) Val {
	return Val{K: KEnum, I: m.GoVal, S: m.Name, Mod: m.Mod, ET: lt.GoEnum, Ident: lt.Ident}
}

// lenBounds picks a (lo,hi) window from the first... all parts of a length restriction clipped to [dlo,dhi].
func lenBounds(r yang.YangRange, dlo, dhi int) (int, int) {
	if len(r) == 0 {
		return dlo, dhi
	}
	lo := int(r[0].Min.Value)
	hi := lo
	for _, p := range r {
		if m := p.Max.Value; m < 64 && int(m) > hi {
			hi = int(m)
		}
	}
	if hi < lo {
		hi = lo
	}
	if hi > lo+12 {
		hi = lo + 12
	}
	return lo, hi
}

// intIn draws an integer of kind k within range parts r (nil = whole kind), biased to boundaries.
func (g *genCtx) intIn(k Kind, r yang.YangRange, label string) *big.Int {
	lo, hi := kindBounds(k)
	type part struct{ lo, hi *big.Int }
	var parts []part
	if len(r) == 0 {
		parts = []part{{lo, hi}}
	} else {
		for _, p := range r {
			a, b := NumberScaled(p.Min, 0), NumberScaled(p.Max, 0)
			if a.Cmp(lo) < 0 {
				a = lo
			}
			if b.Cmp(hi) > 0 {
				b = hi
			}
			if a.Cmp(b) <= 0 {
				parts = append(parts, part{a, b})
			}
		}
	}
	p := parts[rapid.IntRange(0, len(parts)-1).Draw(g.t, label+".part")]
	return g.bigIn(p.lo, p.hi, label)
}

// bigIn draws uniformly-ish in [lo,hi] with boundary and small-magnitude bias.
func (g *genCtx) bigIn(lo, hi *big.Int, label string) *big.Int {
	span := new(big.Int).Sub(hi, lo)
	mode := rapid.IntRange(0, 9).Draw(g.t, label+".mode")
	switch {
	case mode == 0:
		return new(big.Int).Set(lo)
	case mode == 1:
		return new(big.Int).Set(hi)
	case mode == 2 && span.Cmp(big.NewInt(2)) >= 0:
		d := int64(rapid.IntRange(0, 2).Draw(g.t, label+".d"))
		if rapid.Bool().Draw(g.t, label+".side") {
			return new(big.Int).Add(lo, big.NewInt(d))
		}
		return new(big.Int).Sub(hi, big.NewInt(d))
	case mode <= 5:
		// small magnitude if zero-ish values are inside
		s := int64(rapid.IntRange(-20, 20).Draw(g.t, label+".small"))
		x := big.NewInt(s)
		if x.Cmp(lo) >= 0 && x.Cmp(hi) <= 0 {
			return x
		}
	}
	if span.IsUint64() {
		off := rapid.Uint64Range(0, span.Uint64()).Draw(g.t, label+".off")
		return new(big.Int).Add(lo, new(big.Int).SetUint64(off))
	}
	// span wider than 64 bits cannot happen for YANG integers
	return new(big.Int).Set(lo)
}

func (g *genCtx) decIn(lt *LType, label string) *big.Int {
	bound := new(big.Int).Lsh(big.NewInt(1), uint(g.o.MaxDec))
	nb := new(big.Int).Neg(bound)
	type part struct{ lo, hi *big.Int }
	var parts []part
	if len(lt.Range) == 0 {
		parts = []part{{nb, bound}}
	} else {
		for _, p := range lt.Range {
			a, b := NumberScaled(p.Min, lt.FD), NumberScaled(p.Max, lt.FD)
			if a.Cmp(nb) < 0 {
				a = nb
			}
			if b.Cmp(bound) > 0 {
				b = bound
			}
			if a.Cmp(b) <= 0 {
				parts = append(parts, part{a, b})
			}
		}
	}
	p := parts[rapid.IntRange(0, len(parts)-1).Draw(g.t, label+".part")]
	// magnitude classes: pick a decimal magnitude first so that tiny and huge values both occur
	if rapid.IntRange(0, 2).Draw(g.t, label+".magmode") == 0 {
		digits := rapid.IntRange(1, 15).Draw(g.t, label+".digits")
		m := new(big.Int).Set(pow10[digits])
		x := g.bigIn(new(big.Int).Neg(m), m, label)
		if x.Cmp(p.lo) >= 0 && x.Cmp(p.hi) <= 0 {
			return x
		}
	}
	return g.bigIn(p.lo, p.hi, label)
}

func (g *genCtx) str(lt *LType, label string) string {
	key := strings.Join(lt.Patterns, "\x00")
	draw := func(alpha []rune, lo, hi int) string {
		n := rapid.IntRange(lo, hi).Draw(g.t, label+".len")
		r := make([]rune, n)
		for i := range r {
			r[i] = alpha[rapid.IntRange(0, len(alpha)-1).Draw(g.t, label+".r")]
		}
		return string(r)
	}
	switch key {
	case "":
		lo, hi := lenBounds(lt.Length, 0, 8)
		if g.o.PlainStrings {
			return draw(plainAlphabet, lo, hi)
		}
		if rapid.IntRange(0, 3).Draw(g.t, label+".plain") == 0 {
			return draw(plainAlphabet, lo, hi)
		}
		// hostile constants: values that path and key handling code may special-case
		if rapid.IntRange(0, 9).Draw(g.t, label+".hostile") == 0 {
			var c []string
			for _, h := range hostileStrings {
				if n := len([]rune(h)); n >= lo && n <= hi {
					c = append(c, h)
				}
			}
			if len(c) > 0 {
				return rapid.SampledFrom(c).Draw(g.t, label+".h")
			}
		}
		return draw(fullAlphabet, lo, hi)
	case "[a-z]+":
		lo, hi := lenBounds(lt.Length, 1, 6)
		if lo < 1 {
			lo = 1
		}
		return draw([]rune("abcdxyz"), lo, hi)
	case "[A-Z0-9]*\x00.*[0-9].*":
		n := rapid.SampledFrom([]int{2, 4, 5}).Draw(g.t, label+".len")
		r := make([]rune, n)
		al := []rune("ABZ019")
		for i := range r {
			r[i] = al[rapid.IntRange(0, len(al)-1).Draw(g.t, label+".r")]
		}
		r[rapid.IntRange(0, n-1).Draw(g.t, label+".dpos")] = rune('0' + rapid.IntRange(0, 9).Draw(g.t, label+".digit"))
		return string(r)
	case "[a-zA-Z][a-zA-Z0-9/._-]*":
		lo, hi := lenBounds(lt.Length, 1, 8)
		if lo < 1 {
			lo = 1
		}
		s := draw([]rune("abZ09/._-"), lo-1, hi-1)
		return string([]rune("abXY")[rapid.IntRange(0, 3).Draw(g.t, label+".first")]) + s
	}
	panic("HARNESS-BUG: no string generator registered for patterns " + strconv.Quote(key))
}
