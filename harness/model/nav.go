package model

import "reflect"

// Site is one struct-valued position of a tree: the root, a container or a keyed-list entry.
type Site struct {
	N     *Node
	Elems []PElem      // data-tree path of the node (nil for the root)
	Via   []*FieldInfo // fields crossed from the root
	Keys  [][]Val      // key tuple per list field crossed
	InOrdered bool     // below an ordered-by-user list entry
	InUnkeyed bool
}

// Sites enumerates the root, all containers and all keyed list entries of the tree (unkeyed list
// entries are not addressable and are skipped, together with everything below them).
func Sites(root *Node) []Site {
	var out []Site
	var walk func(s Site)
	walk = func(s Site) {
		out = append(out, s)
		for _, f := range s.N.SI.Fields {
			switch f.Kind {
			case FCont:
				if c, ok := s.N.Cont[f.Name]; ok {
					walk(Site{N: c, Elems: appendPath(s.Elems, f.Paths[0]), Via: append(append([]*FieldInfo(nil), s.Via...), f), Keys: s.Keys, InOrdered: s.InOrdered})
				}
			case FList, FOrdList:
				for _, e := range s.N.List[f.Name] {
					walk(Site{N: e.N, Elems: EntryElems(s.Elems, f, 0, e.Key), Via: append(append([]*FieldInfo(nil), s.Via...), f),
						Keys: append(append([][]Val(nil), s.Keys...), e.Key), InOrdered: s.InOrdered || f.Kind == FOrdList})
				}
			}
		}
	}
	walk(Site{N: root})
	return out
}

// Graft returns a new root-level tree that contains only `sub` at the position of site s: the
// ancestors are created empty, list entries on the way carry just their key leaves (what a gNMI
// path with keys creates).
func Graft(rootSI *StructInfo, s Site, sub *Node) *Node {
	root := NewNode(rootSI)
	if len(s.Via) == 0 {
		return sub
	}
	cur := root
	ki := 0
	for i, f := range s.Via {
		last := i == len(s.Via)-1
		switch f.Kind {
		case FCont:
			var c *Node
			if last {
				c = sub
			} else {
				c = NewNode(f.Child)
			}
			cur.Cont[f.Name] = c
			cur = c
		case FList, FOrdList:
			key := s.Keys[ki]
			ki++
			var n *Node
			if last {
				n = sub
			} else {
				n = NewNode(f.Child)
			}
			for j, kf := range f.KeyFields {
				if _, ok := n.Leaf[kf.Name]; !ok {
					n.Leaf[kf.Name] = key[j]
				}
			}
			cur.List[f.Name] = []*Entry{{Key: key, N: n}}
			cur = n
		}
	}
	return root
}

// DropEmptyContainers removes containers (presence or not) that hold no leaf, leaf-list or list entry.
func (n *Node) DropEmptyContainers() *Node {
	if n == nil {
		return nil
	}
	for k, c := range n.Cont {
		c.DropEmptyContainers()
		if c.IsEmpty(false) {
			delete(n.Cont, k)
		}
	}
	for _, l := range n.List {
		for _, e := range l {
			e.N.DropEmptyContainers()
		}
	}
	for _, l := range n.UList {
		for _, e := range l {
			e.DropEmptyContainers()
		}
	}
	return n
}

// RenderObject renders a node as a generic JSON object value (for embedding into larger documents).
func RenderObject(n *Node, o JSONOpts) map[string]interface{} { return renderNode(n, o) }

// ObserveKey reads a Go map key (scalar or key struct) of list field f into a key tuple.
func ObserveKey(f *FieldInfo, kv reflect.Value) []Val { return observeKey(f, kv) }
