package checker

import (
	"fmt"
	"reflect"
	"sort"
	"strings"

	"github.com/openconfig/goyang/pkg/yang"
)

// CompareSchema is C27: the schema embedded in the generated code against the own compilation.
// The transformation ygot documents for the embedded schema: the top-level nodes of all
// modules are hung below one unnamed root (named after the fake root when one is generated),
// descriptions are dropped unless -include_descriptions; nothing else changes (the tree is NOT
// compressed: compression only changes struct/field mapping).
func CompareSchema(own *Own, cfg Config, g Generated) *Report {
	rep := newReport()
	emb, err := g.Unzip()
	if err != nil {
		rep.bad("UnzipSchema failed: %v", err)
		return rep
	}
	var root *yang.Entry
	for _, n := range sortedKeys(emb) {
		e := emb[n]
		for e.Parent != nil {
			e = e.Parent
		}
		if root != nil && root != e {
			rep.bad("embedded schema has more than one root")
			return rep
		}
		root = e
	}
	if root == nil {
		if len(own.Top) == 0 {
			return rep
		}
		// no struct at all (e.g. only top-level leaves without a fake root): nothing is embedded
		rep.Stats["no-structs"] = 1
		return rep
	}
	if cfg.FakeRoot {
		want := cfg.FakeRootName
		if want == "" {
			want = "device"
		}
		if root.Name != want {
			rep.bad("fake root is called %q in the embedded schema, want %q", root.Name, want)
		}
		if root.Kind != yang.DirectoryEntry {
			rep.bad("fake root kind %v, want directory", root.Kind)
		}
	}
	c := &cmp{own: own, cfg: cfg, rep: rep}
	c.dir("", root.Dir, own.Top)
	// SchemaTree (built by the generated init) must be the same mapping as UnzipSchema()
	if len(g.SchemaTree) != len(emb) {
		rep.bad("SchemaTree has %d entries, UnzipSchema() %d", len(g.SchemaTree), len(emb))
	}
	for n, e := range emb {
		if s := g.SchemaTree[n]; s == nil || entryPath(s) != entryPath(e) {
			rep.bad("SchemaTree[%s] is %s, UnzipSchema()[%s] is %s", n, entryPath(s), n, entryPath(e))
		}
	}
	return rep
}

type cmp struct {
	own *Own
	cfg Config
	rep *Report
}

func (c *cmp) dir(path string, got, want map[string]*yang.Entry) {
	for _, n := range sortedKeys(want) {
		w := want[n]
		if !isSchemaTreeNode(w) {
			continue
		}
		g, ok := got[n]
		if !ok {
			c.rep.bad("%s/%s (%s) is missing from the embedded schema", path, n, kindName(w))
			continue
		}
		c.entry(path+"/"+n, g, w)
	}
	for _, n := range sortedKeys(got) {
		if w, ok := want[n]; !ok || !isSchemaTreeNode(w) {
			c.rep.bad("%s/%s (%s) is in the embedded schema but not in the YANG", path, n, kindName(got[n]))
		}
	}
}

func (c *cmp) diff(path, what string, got, want interface{}) {
	if !reflect.DeepEqual(got, want) {
		c.rep.bad("%s: %s is %v in the embedded schema, %v in the YANG", path, what, got, want)
	}
}

func (c *cmp) entry(path string, g, w *yang.Entry) {
	c.rep.Stats["nodes"]++
	c.diff(path, "name", g.Name, w.Name)
	c.diff(path, "kind", kindName(g), kindName(w))
	c.diff(path, "entry kind", g.Kind, w.Kind)
	c.diff(path, "config", g.Config, w.Config)
	c.diff(path, "effective config", isConfig(g), isConfig(w))
	c.diff(path, "key", g.Key, w.Key)
	c.diff(path, "mandatory", g.Mandatory, w.Mandatory)
	c.diff(path, "default", strings.Join(g.Default, "\x00"), strings.Join(w.Default, "\x00"))
	c.diff(path, "default count", len(g.Default), len(w.Default))
	c.diff(path, "units", g.Units, w.Units)
	if c.cfg.IncludeDescriptions {
		c.diff(path, "description", g.Description, w.Description)
	}
	if (g.ListAttr == nil) != (w.ListAttr == nil) {
		c.rep.bad("%s: list attributes present=%v in the embedded schema, %v in the YANG", path, g.ListAttr != nil, w.ListAttr != nil)
	} else if w.ListAttr != nil {
		c.diff(path, "min-elements", g.ListAttr.MinElements, w.ListAttr.MinElements)
		c.diff(path, "max-elements", g.ListAttr.MaxElements, w.ListAttr.MaxElements)
		c.diff(path, "ordered-by user", g.ListAttr.OrderedByUser, w.ListAttr.OrderedByUser)
	}
	c.diff(path, "presence", presenceOf(g), presenceOf(w))
	if pg, pw := prefixOf(g), prefixOf(w); pg != pw {
		c.rep.bad("%s: prefix is %q in the embedded schema, %q in the YANG", path, pg, pw)
	}
	if w.Kind == yang.DirectoryEntry {
		if sp, _ := g.Annotation["schemapath"].(string); sp != "/"+strings.Join(schemaPath(w), "/") {
			c.rep.bad("%s: schemapath annotation %q, want %q", path, sp, "/"+strings.Join(schemaPath(w), "/"))
		}
	}
	if (g.Type == nil) != (w.Type == nil) {
		c.rep.bad("%s: type present=%v in the embedded schema, %v in the YANG", path, g.Type != nil, w.Type != nil)
	} else if w.Type != nil {
		c.rep.Stats["leaves"]++
		c.typ(path, g.Type, w.Type)
	}
	if w.Dir != nil || g.Dir != nil {
		c.dir(path, g.Dir, w.Dir)
	}
}

// presenceOf: goyang keeps the presence statement in Entry.Extra["presence"].
func presenceOf(e *yang.Entry) string {
	v, ok := e.Extra["presence"]
	if !ok || len(v) == 0 {
		return "<none>"
	}
	switch x := v[0].(type) {
	case *yang.Value:
		if x == nil {
			return "<none>"
		}
		return "presence:" + x.Name
	case map[string]interface{}:
		if n, ok := x["Name"].(string); ok {
			return "presence:" + n
		}
	}
	return fmt.Sprintf("presence:%v", v[0])
}

func prefixOf(e *yang.Entry) string {
	if e.Prefix == nil {
		return ""
	}
	return e.Prefix.Name
}

func rangeText(r yang.YangRange) string { return r.String() }

func (c *cmp) typ(path string, g, w *yang.YangType) {
	c.diff(path, "type name", g.Name, w.Name)
	c.diff(path, "type kind", yang.TypeKindToName[g.Kind], yang.TypeKindToName[w.Kind])
	c.diff(path, "type default", g.Default, w.Default)
	c.diff(path, "type has-default", g.HasDefault, w.HasDefault)
	c.diff(path, "type units", g.Units, w.Units)
	c.diff(path, "fraction-digits", g.FractionDigits, w.FractionDigits)
	c.diff(path, "range", rangeText(g.Range), rangeText(w.Range))
	c.diff(path, "range parts", len(g.Range), len(w.Range))
	c.diff(path, "length", rangeText(g.Length), rangeText(w.Length))
	c.diff(path, "length parts", len(g.Length), len(w.Length))
	c.diff(path, "patterns", strings.Join(g.Pattern, "\x00"), strings.Join(w.Pattern, "\x00"))
	c.diff(path, "pattern count", len(g.Pattern), len(w.Pattern))
	c.diff(path, "posix-patterns", strings.Join(g.POSIXPattern, "\x00"), strings.Join(w.POSIXPattern, "\x00"))
	c.diff(path, "leafref path", g.Path, c.wantLeafrefPath(w.Path))
	c.diff(path, "require-instance optional", g.OptionalInstance, w.OptionalInstance)
	// enumeration / bits members
	c.diff(path, "enum members", enumText(g.Enum), enumText(w.Enum))
	c.diff(path, "bit members", enumText(g.Bit), enumText(w.Bit))
	// identity base and the identities derived from it
	c.diff(path, "identity base and members", identText(g.IdentityBase), identText(w.IdentityBase))
	// union members in order
	if len(g.Type) != len(w.Type) {
		c.rep.bad("%s: union has %d members in the embedded schema, %d in the YANG", path, len(g.Type), len(w.Type))
		return
	}
	for i := range w.Type {
		c.typ(fmt.Sprintf("%s<union member %d>", path, i), g.Type[i], w.Type[i])
	}
}

// wantLeafrefPath applies the one transformation ygot documents for the tree itself
// (genutil.TransformEntry doc comment, README of -prefer_operational_state): with
// PreferOperationalState a leafref that points at a leaf of a "config" container is re-pointed at
// the leaf of the same name in the sibling "state" container.
func (c *cmp) wantLeafrefPath(p string) string {
	if !c.cfg.PreferOperationalState || p == "" {
		return p
	}
	parts := strings.Split(p, "/")
	if len(parts) < 3 {
		return p
	}
	i := len(parts) - 2
	if localName(parts[i]) == "config" {
		parts[i] = strings.TrimSuffix(parts[i], "config") + "state"
	}
	return strings.Join(parts, "/")
}

func enumText(e *yang.EnumType) string {
	if e == nil {
		return "<none>"
	}
	var s []string
	for n, v := range e.ToInt {
		s = append(s, fmt.Sprintf("%q=%d", n, v))
	}
	sort.Strings(s)
	var r []string
	for v, n := range e.ToString {
		r = append(r, fmt.Sprintf("%d=%q", v, n))
	}
	sort.Strings(r)
	return strings.Join(s, ",") + " / " + strings.Join(r, ",")
}

func identText(i *yang.Identity) string {
	if i == nil {
		return "<none>"
	}
	var s []string
	for _, v := range i.Values {
		s = append(s, v.Name)
	}
	sort.Strings(s)
	return i.Name + "{" + strings.Join(s, ",") + "}"
}
