package checker

import (
	"encoding/json"
	"fmt"
	"os"
)

// Verdict is what a checker program prints (one JSON document on stdout).
type Verdict struct {
	HarnessError string  `json:"harness_error,omitempty"` // own compilation failed etc.: never a violation
	C26          *Report `json:"c26,omitempty"`
	C27          *Report `json:"c27,omitempty"`
}

// Main is called by the generated checker main: os.Args[1] is the Config JSON file.
func Main(g Generated) {
	v := run(g)
	b, _ := json.MarshalIndent(v, "", " ")
	fmt.Println(string(b))
}

func run(g Generated) (v *Verdict) {
	v = &Verdict{}
	defer func() {
		if p := recover(); p != nil {
			v.HarnessError = fmt.Sprintf("checker panic: %v", p)
		}
	}()
	if len(os.Args) < 2 {
		v.HarnessError = "usage: checker config.json"
		return v
	}
	b, err := os.ReadFile(os.Args[1])
	if err != nil {
		v.HarnessError = err.Error()
		return v
	}
	var cfg Config
	if err := json.Unmarshal(b, &cfg); err != nil {
		v.HarnessError = err.Error()
		return v
	}
	own, err := Compile(cfg.YangDir, cfg.Roots)
	if err != nil {
		v.HarnessError = "own goyang compilation: " + err.Error()
		return v
	}
	v.C26 = CheckStructs(own, cfg, g)
	// C27 runs on a second, untouched compilation: CheckStructs only reads, but keep them apart anyway
	v.C27 = CompareSchema(own, cfg, g)
	return v
}
