package checker

import (
	"fmt"
	"reflect"
	"sort"
	"strings"

	"github.com/openconfig/goyang/pkg/yang"
)

// Generated is what the generated checker main hands over from the generated package.
type Generated struct {
	Structs    []interface{}                            // one zero value pointer per generated GoStruct type
	SchemaTree map[string]*yang.Entry                   // <pkg>.SchemaTree
	Unzip      func() (map[string]*yang.Entry, error)   // <pkg>.UnzipSchema
	EnumTypes  map[string][]reflect.Type                // <pkg>.ΛEnumTypes
}

// Report collects violations of one property.
type Report struct {
	Violations []string       `json:"violations"`
	Stats      map[string]int `json:"stats"`
}

func newReport() *Report { return &Report{Stats: map[string]int{}} }

func (r *Report) bad(format string, a ...interface{}) {
	if len(r.Violations) < 40 {
		r.Violations = append(r.Violations, fmt.Sprintf(format, a...))
	}
}

// expField is a field the oracle expects in a struct.
type expField struct {
	paths  [][]string    // alternatives, each a relative data path ("config","name")
	shadow [][]string    // shadow alternatives (compressed, leaf present in both config and state)
	entry  *yang.Entry   // the node of the primary alternative
	all    []*yang.Entry // every own node this field stands for (primary, key leafref, shadow)
	child  *expDir       // container / list
}

type expDir struct {
	entry  *yang.Entry // nil for the fake root
	fields map[string]*expField
	order  []string
}

func pathKey(p []string) string { return strings.Join(p, "/") }

type oracle struct {
	own *Own
	cfg Config
	// every own data node that must be represented, and how often it was seen
	dirs map[*yang.Entry]*expDir
}

func (o *oracle) prio() (string, string) {
	if o.cfg.PreferOperationalState {
		return "state", "config"
	}
	return "config", "state"
}

func isConfigState(e *yang.Entry) bool {
	return isContainer(e) && (e.Name == "config" || e.Name == "state")
}

// expected builds the expected struct for directory e (nil: fake root) under the chosen
// compression (docs/design.md "OpenConfig Path Compression"): config/state containers are folded
// into their parent, a container whose only child is a list is folded into the list, keys of
// compressed lists are represented by the config (state) leaf they point at.
func (o *oracle) expected(e *yang.Entry) *expDir {
	if e != nil {
		if d, ok := o.dirs[e]; ok {
			return d
		}
	}
	d := &expDir{entry: e, fields: map[string]*expField{}}
	if e != nil {
		o.dirs[e] = d
	}
	add := func(f *expField) {
		k := pathKey(f.paths[0])
		if _, dup := d.fields[k]; dup {
			return
		}
		d.fields[k] = f
		d.order = append(d.order, k)
	}
	var children []*yang.Entry
	if e == nil {
		for _, n := range sortedKeys(o.own.Top) {
			c := o.own.Top[n]
			if isChoiceOrCase(c) {
				children = append(children, dataChildren(c)...)
			} else {
				children = append(children, c)
			}
		}
	} else {
		children = dataChildren(e)
	}
	excl := o.cfg.ExcludeState
	if !o.cfg.Compress {
		for _, c := range children {
			if excl && !isConfig(c) {
				continue
			}
			f := &expField{paths: [][]string{{c.Name}}, entry: c, all: []*yang.Entry{c}}
			if c.Kind == yang.DirectoryEntry {
				f.child = o.expected(c)
			}
			add(f)
		}
		return d
	}
	prio, deprio := o.prio()
	// leaves hoisted out of config / state
	hoisted := map[string]*expField{}
	var hoistOrder []string
	for _, sub := range []string{prio, deprio} {
		var cs *yang.Entry
		for _, c := range children {
			if c.Name == sub && isConfigState(c) {
				cs = c
			}
		}
		if cs == nil || (excl && !isConfig(cs)) {
			continue
		}
		for _, l := range dataChildren(cs) {
			if excl && !isConfig(l) {
				continue
			}
			if f, ok := hoisted[l.Name]; ok {
				f.shadow = append(f.shadow, []string{sub, l.Name})
				f.all = append(f.all, l)
				continue
			}
			f := &expField{paths: [][]string{{sub, l.Name}}, entry: l, all: []*yang.Entry{l}}
			if l.Kind == yang.DirectoryEntry {
				f.child = o.expected(l)
			}
			hoisted[l.Name] = f
			hoistOrder = append(hoistOrder, l.Name)
		}
	}
	keys := map[string]bool{}
	if e != nil && isList(e) {
		for _, k := range strings.Fields(e.Key) {
			keys[k] = true
		}
	}
	for _, c := range children {
		if excl && !isConfig(c) {
			continue
		}
		switch {
		case isConfigState(c):
		case c.Kind == yang.DirectoryEntry:
			gc := dataOrChoiceChildren(c)
			if len(gc) == 1 && isList(gc[0]) {
				l := gc[0]
				if excl && !isConfig(l) {
					continue
				}
				add(&expField{paths: [][]string{{c.Name, l.Name}}, entry: l, all: []*yang.Entry{c, l}, child: o.expected(l)})
				continue
			}
			add(&expField{paths: [][]string{{c.Name}}, entry: c, all: []*yang.Entry{c}, child: o.expected(c)})
		default: // leaf, leaf-list
			if e != nil && isList(e) && c.Type != nil && c.Type.Kind == yang.Yleafref {
				// a leafref directly below a compressed list is the key mirror of config/<key>
				if f, ok := hoisted[c.Name]; ok && keys[c.Name] {
					f.paths = append(f.paths, []string{c.Name})
					f.all = append(f.all, c)
					for range f.shadow {
						// the shadow alternative list mirrors the primary one
					}
					continue
				}
				continue // outside the OpenConfig convention: ygot drops it (documented in FindAllChildren)
			}
			add(&expField{paths: [][]string{{c.Name}}, entry: c, all: []*yang.Entry{c}})
		}
	}
	for _, n := range hoistOrder {
		add(hoisted[n])
	}
	return d
}

// ---------------------------------------------------------------------------------------------

type walker struct {
	o     *oracle
	g     Generated
	rep   *Report
	byT   map[reflect.Type]string // struct type -> name
	seenS map[reflect.Type]bool
	emb   map[string]*yang.Entry // unzipped schema
}

// CheckStructs is the C26 conformance walk.
func CheckStructs(own *Own, cfg Config, g Generated) *Report {
	rep := newReport()
	w := &walker{o: &oracle{own: own, cfg: cfg, dirs: map[*yang.Entry]*expDir{}}, g: g, rep: rep, byT: map[reflect.Type]string{}, seenS: map[reflect.Type]bool{}}
	emb, err := g.Unzip()
	if err != nil {
		rep.bad("UnzipSchema failed: %v", err)
		return rep
	}
	w.emb = emb
	types := map[string]reflect.Type{}
	for _, s := range g.Structs {
		t := reflect.TypeOf(s).Elem()
		types[t.Name()] = t
		w.byT[t] = t.Name()
	}
	rep.Stats["structs"] = len(types)
	// every struct has a schema entry and vice versa
	for n := range types {
		if emb[n] == nil {
			rep.bad("struct %s has no entry in UnzipSchema()", n)
		}
		if g.SchemaTree[n] == nil {
			rep.bad("struct %s has no entry in SchemaTree", n)
		}
	}
	for n := range emb {
		if _, ok := types[n]; !ok {
			rep.bad("UnzipSchema() has entry %q but there is no such GoStruct type", n)
		}
	}
	// roots of the parallel walk
	if cfg.FakeRoot {
		var root reflect.Type
		for n, e := range emb {
			if e.Parent == nil {
				if root != nil {
					rep.bad("two schema roots: %s and %s", w.byT[root], n)
				}
				root = types[n]
			}
		}
		if root == nil {
			rep.bad("-generate_fakeroot: no struct is mapped to the schema root")
			return rep
		}
		w.walk(root, w.o.expected(nil), "/")
	} else {
		// without a fake root every top-level directory is a root of its own
		for _, f := range w.o.expected(nil).orderFields() {
			if f.child == nil {
				continue // top-level leaves have no home without a fake root
			}
			want := "/" + strings.Join(schemaPath(f.entry), "/")
			var found []string
			for n, e := range emb {
				if entryPath(e) == want {
					found = append(found, n)
				}
			}
			sort.Strings(found)
			if len(found) != 1 {
				rep.bad("top-level %s %s: %d structs are mapped to it in the embedded schema (%v), want exactly 1", kindName(f.entry), want, len(found), found)
				continue
			}
			if t, ok := types[found[0]]; ok {
				w.walk(t, f.child, want)
			}
		}
	}
	// every generated struct must have been reached from a root: an unreachable struct is a
	// struct for a node that is not in the (compressed) tree
	for t, n := range w.byT {
		if !w.seenS[t] {
			rep.bad("struct %s is not reachable from the schema roots through path-tagged fields (embedded schema path %s)", n, entryPath(emb[n]))
		}
	}
	return rep
}

func (d *expDir) orderFields() []*expField {
	ks := append([]string{}, d.order...)
	sort.Strings(ks)
	out := make([]*expField, 0, len(ks))
	for _, k := range ks {
		out = append(out, d.fields[k])
	}
	return out
}

// schemaPath: module name + schema node names (choices and cases included), like Entry.Path().
func schemaPath(e *yang.Entry) []string {
	var p []string
	for ; e != nil; e = e.Parent {
		p = append([]string{e.Name}, p...)
	}
	return p
}

func entryPath(e *yang.Entry) string {
	if e == nil {
		return "<nil>"
	}
	if sp, ok := e.Annotation["schemapath"].(string); ok {
		return sp
	}
	return e.Path()
}

type tagAlt struct{ path, mods []string }

func splitTag(path, mod string) ([]tagAlt, error) {
	var out []tagAlt
	ps := strings.Split(path, "|")
	var ms []string
	if mod != "" {
		ms = strings.Split(mod, "|")
		if len(ms) != len(ps) {
			return nil, fmt.Errorf("path tag %q has %d alternatives, module tag %q has %d", path, len(ps), mod, len(ms))
		}
	}
	for i, p := range ps {
		a := tagAlt{path: strings.Split(strings.Trim(p, "/"), "/")}
		if ms != nil {
			a.mods = strings.Split(strings.Trim(ms[i], "/"), "/")
			if len(a.mods) != len(a.path) {
				return nil, fmt.Errorf("path %q has %d elements, module %q has %d", p, len(a.path), ms[i], len(a.mods))
			}
		}
		out = append(out, a)
	}
	return out, nil
}

// resolveEmbedded walks a relative data path below e in the embedded schema.
func resolveEmbedded(e *yang.Entry, path []string) *yang.Entry {
	for _, p := range path {
		if e == nil {
			return nil
		}
		e = findData(e, p)
	}
	return e
}

func (w *walker) walk(t reflect.Type, d *expDir, where string) {
	if w.seenS[t] {
		w.rep.bad("struct %s is reachable twice (second time at %s)", t.Name(), where)
		return
	}
	w.seenS[t] = true
	w.rep.Stats["structs-walked"]++
	emb := w.emb[t.Name()]
	if emb == nil {
		return // already reported
	}
	if d.entry != nil {
		want := "/" + strings.Join(schemaPath(d.entry), "/")
		if got := entryPath(emb); got != want {
			w.rep.bad("struct %s: embedded schema entry has path %s, the node it stands for is %s", t.Name(), got, want)
		}
	}
	seen := map[string]string{} // primary path -> field name
	for i := 0; i < t.NumField(); i++ {
		f := t.Field(i)
		if f.Tag.Get("ygotAnnotation") != "" {
			continue
		}
		w.rep.Stats["fields"]++
		ptag, ok := f.Tag.Lookup("path")
		if !ok {
			w.rep.bad("%s.%s has no path tag", t.Name(), f.Name)
			continue
		}
		alts, err := splitTag(ptag, f.Tag.Get("module"))
		if err != nil {
			w.rep.bad("%s.%s: %v", t.Name(), f.Name, err)
			continue
		}
		var shadow []tagAlt
		if sp, ok := f.Tag.Lookup("shadow-path"); ok {
			if shadow, err = splitTag(sp, f.Tag.Get("shadow-module")); err != nil {
				w.rep.bad("%s.%s: shadow tags: %v", t.Name(), f.Name, err)
			}
		}
		// 1. tags resolve in the embedded schema to nodes whose kind fits the Go type
		for _, a := range append(append([]tagAlt{}, alts...), shadow...) {
			n := resolveEmbedded(emb, a.path)
			if n == nil {
				w.rep.bad("%s.%s: path %q does not resolve in the embedded schema below %s", t.Name(), f.Name, pathKey(a.path), entryPath(emb))
				continue
			}
			if msg := fits(f.Type, n, w); msg != "" {
				w.rep.bad("%s.%s (Go type %s) is tagged %q which is a %s in the embedded schema: %s", t.Name(), f.Name, f.Type, pathKey(a.path), kindName(n), msg)
			}
		}
		// 2. the field is the one the own goyang tree asks for
		k := pathKey(alts[0].path)
		ef := d.fields[k]
		if ef == nil {
			// perhaps another alternative is the primary one of the oracle
			for _, a := range alts[1:] {
				if x := d.fields[pathKey(a.path)]; x != nil {
					ef, k = x, pathKey(a.path)
				}
			}
		}
		if ef == nil {
			w.rep.bad("%s.%s: path %q is no data node reachable under the chosen compression below %s (expected fields: %v)", t.Name(), f.Name, ptag, where, d.order)
			continue
		}
		if prev, dup := seen[k]; dup {
			w.rep.bad("%s: node %q is represented by two fields, %s and %s", t.Name(), k, prev, f.Name)
			continue
		}
		seen[k] = f.Name
		if got, want := altSet(alts), pathSet(ef.paths); got != want {
			w.rep.bad("%s.%s: path tag alternatives %s, want %s", t.Name(), f.Name, got, want)
		}
		if len(shadow) > 0 {
			// shadow paths must be the de-prioritised copies
			want := map[string]bool{}
			for _, s := range ef.shadow {
				want[pathKey(s)] = true
			}
			for _, s := range shadow {
				if len(s.path) > 1 && !want[pathKey(s.path)] {
					w.rep.bad("%s.%s: shadow-path %q is not the %s copy of the leaf (want one of %v)", t.Name(), f.Name, pathKey(s.path), "de-prioritised", keysOf(want))
				}
			}
		}
		// module tags name the belonging module of every path element
		for ai, a := range alts {
			if a.mods == nil {
				continue
			}
			var n *yang.Entry
			if d.entry == nil {
				n = w.o.own.Top[a.path[0]]
				if n == nil { // top-level node inside a choice
					for _, c := range w.o.expected(nil).fields {
						if c.entry.Name == a.path[0] {
							n = c.entry
						}
					}
				}
				for _, p := range a.path[1:] {
					if n != nil {
						n = findData(n, p)
					}
				}
			} else {
				n = resolveEmbeddedOwn(d.entry, a.path)
			}
			// walk again element by element to compare modules
			cur := d.entry
			for pi, p := range a.path {
				var nx *yang.Entry
				if cur == nil {
					nx = w.o.own.Top[p]
					if nx == nil {
						for _, c := range w.o.expected(nil).fields {
							if c.entry.Name == p {
								nx = c.entry
							}
						}
					}
				} else {
					nx = findData(cur, p)
				}
				if nx == nil {
					break
				}
				if want := w.o.own.belongingModule(nx); want != "" && a.mods[pi] != want {
					w.rep.bad("%s.%s: module tag alternative %d element %d is %q, node %s belongs to module %q", t.Name(), f.Name, ai, pi, a.mods[pi], p, want)
				}
				cur = nx
			}
			_ = n
		}
		// 3. kind and Go type against the own tree
		if msg := w.fitsOwn(f.Type, ef); msg != "" {
			w.rep.bad("%s.%s (Go type %s) stands for %s %s: %s", t.Name(), f.Name, f.Type, kindName(ef.entry), "/"+strings.Join(schemaPath(ef.entry), "/"), msg)
		}
		// 4. descend
		if ef.child != nil {
			if ct := w.elemStruct(f.Type); ct != nil {
				w.walk(ct, ef.child, where+k+"/")
			}
		}
	}
	for _, k := range d.order {
		if _, ok := seen[k]; !ok {
			ef := d.fields[k]
			w.rep.bad("%s: no field for %s %s (expected path tag %s)", t.Name(), kindName(ef.entry), "/"+strings.Join(schemaPath(ef.entry), "/"), pathSet(ef.paths))
		}
	}
}

func resolveEmbeddedOwn(e *yang.Entry, path []string) *yang.Entry { return resolveEmbedded(e, path) }

func keysOf(m map[string]bool) []string {
	var ks []string
	for k := range m {
		ks = append(ks, k)
	}
	sort.Strings(ks)
	return ks
}

func altSet(as []tagAlt) string {
	var s []string
	for _, a := range as {
		s = append(s, pathKey(a.path))
	}
	sort.Strings(s)
	return strings.Join(s, "|")
}

func pathSet(ps [][]string) string {
	var s []string
	for _, p := range ps {
		s = append(s, pathKey(p))
	}
	sort.Strings(s)
	return strings.Join(s, "|")
}

func isGoStruct(t reflect.Type) bool {
	if t.Kind() != reflect.Ptr || t.Elem().Kind() != reflect.Struct {
		return false
	}
	_, ok := t.MethodByName("IsYANGGoStruct")
	return ok
}

func isOrderedMap(t reflect.Type) bool {
	if t.Kind() != reflect.Ptr || t.Elem().Kind() != reflect.Struct {
		return false
	}
	_, ok := t.MethodByName("IsYANGOrderedList")
	return ok
}

// elemStruct returns the GoStruct type a container/list field leads to.
func (w *walker) elemStruct(t reflect.Type) reflect.Type {
	switch {
	case isGoStruct(t):
		return t.Elem()
	case isOrderedMap(t):
		if m, ok := t.MethodByName("Get"); ok && m.Type.NumOut() == 1 && isGoStruct(m.Type.Out(0)) {
			return m.Type.Out(0).Elem()
		}
	case t.Kind() == reflect.Map && isGoStruct(t.Elem()):
		return t.Elem().Elem()
	case t.Kind() == reflect.Slice && isGoStruct(t.Elem()):
		return t.Elem().Elem()
	}
	return nil
}

func isEnumType(t reflect.Type) bool {
	if t.Kind() != reflect.Int64 || t.Name() == "int64" {
		return false
	}
	_, ok := t.MethodByName("IsYANGGoEnum")
	return ok
}

// leafShape classifies the Go type of a leaf field (or a leaf-list element when elem is true).
func leafShape(t reflect.Type, elem bool) string {
	switch {
	case isEnumType(t):
		return "enum"
	case t.Kind() == reflect.Interface:
		return "union"
	case t.Kind() == reflect.Slice && t.Elem().Kind() == reflect.Uint8 && t.Name() == "Binary":
		return "binary"
	case t.Kind() == reflect.Bool && t.Name() == "YANGEmpty":
		return "empty"
	}
	if !elem {
		if t.Kind() != reflect.Ptr {
			return "?" + t.String()
		}
		t = t.Elem()
	}
	if t.PkgPath() != "" { // named scalar type: not a plain YANG scalar
		return "?" + t.String()
	}
	switch t.Kind() {
	case reflect.Int8, reflect.Int16, reflect.Int32, reflect.Int64, reflect.Uint8, reflect.Uint16, reflect.Uint32, reflect.Uint64,
		reflect.String, reflect.Bool, reflect.Float64:
		return t.Kind().String()
	}
	return "?" + t.String()
}

// fits is the coarse check against the embedded schema demanded by the property text.
func fits(t reflect.Type, n *yang.Entry, w *walker) string {
	switch {
	case isLeaf(n):
		if s := leafShape(t, false); strings.HasPrefix(s, "?") {
			return "a leaf needs a pointer to a scalar, an enum, a union interface, Binary or YANGEmpty"
		}
	case isLeafList(n):
		if t.Kind() != reflect.Slice || t.Name() == "Binary" {
			return "a leaf-list needs a slice"
		}
		if s := leafShape(t.Elem(), true); strings.HasPrefix(s, "?") {
			return "leaf-list elements need to be scalars, enums, unions or Binary"
		}
	case isList(n) && n.Key == "":
		if t.Kind() != reflect.Slice || !isGoStruct(t.Elem()) {
			return "an unkeyed list needs a slice of struct pointers"
		}
	case isList(n):
		if !(t.Kind() == reflect.Map && isGoStruct(t.Elem())) && !isOrderedMap(t) {
			return "a keyed list needs a map (or ordered map) of struct pointers"
		}
	case isContainer(n):
		if !isGoStruct(t) {
			return "a container needs a struct pointer"
		}
	default:
		return "not a data node"
	}
	return ""
}

var scalarOf = map[yang.TypeKind]string{
	yang.Yint8: "int8", yang.Yint16: "int16", yang.Yint32: "int32", yang.Yint64: "int64",
	yang.Yuint8: "uint8", yang.Yuint16: "uint16", yang.Yuint32: "uint32", yang.Yuint64: "uint64",
	yang.Ystring: "string", yang.Ybool: "bool", yang.Ydecimal64: "float64",
	yang.Yenum: "enum", yang.Yidentityref: "enum", yang.Ybinary: "binary", yang.Yempty: "empty", yang.Yunion: "union",
}

// wantShapes: the Go shapes allowed for an own leaf type (docs/design.md "Output Go structures").
func (w *walker) wantShapes(e *yang.Entry) map[string]bool {
	t := w.o.own.resolvedType(e)
	if t == nil {
		return nil // unresolvable leafref: nothing to say
	}
	out := map[string]bool{}
	if t.Kind != yang.Yunion {
		if s, ok := scalarOf[t.Kind]; ok {
			out[s] = true
			return out
		}
		return nil
	}
	// unions: an interface, or - when every member maps to the same Go type - that type
	out["union"] = true
	members := map[string]bool{}
	var flat func(e *yang.Entry, t *yang.YangType)
	unknown := false
	flat = func(e *yang.Entry, t *yang.YangType) {
		for _, m := range t.Type {
			switch m.Kind {
			case yang.Yunion:
				flat(e, m)
			case yang.Yleafref:
				unknown = true
			default:
				if s, ok := scalarOf[m.Kind]; ok {
					members[s] = true
				} else {
					unknown = true
				}
			}
		}
	}
	flat(e, t)
	if unknown {
		return nil
	}
	if len(members) == 1 {
		for s := range members {
			out[s] = true
		}
	}
	return out
}

func (w *walker) fitsOwn(t reflect.Type, ef *expField) string {
	n := ef.entry
	if msg := fits(t, n, w); msg != "" {
		return msg
	}
	switch {
	case isLeaf(n), isLeafList(n):
		want := w.wantShapes(n)
		if want == nil {
			return ""
		}
		got := ""
		if isLeaf(n) {
			got = leafShape(t, false)
		} else {
			got = leafShape(t.Elem(), true)
		}
		if !want[got] {
			return fmt.Sprintf("YANG type %s maps to %v, the field is %s", typeName(n.Type), keysOf(want), got)
		}
	case isList(n) && n.Key != "":
		ordered := n.ListAttr.OrderedByUser && !w.o.cfg.UnorderedMaps
		if ordered != isOrderedMap(t) {
			return fmt.Sprintf("ordered-by user=%v (ordered maps %v) but ordered-map type=%v", n.ListAttr.OrderedByUser, !w.o.cfg.UnorderedMaps, isOrderedMap(t))
		}
		return w.keyFits(t, n)
	}
	return ""
}

func typeName(t *yang.YangType) string {
	if t == nil {
		return "<nil>"
	}
	return yang.TypeKindToName[t.Kind]
}

// keyFits: the map key type is the Go type of the key field(s) of the element struct.
func (w *walker) keyFits(t reflect.Type, n *yang.Entry) string {
	var kt reflect.Type
	if t.Kind() == reflect.Map {
		kt = t.Key()
	} else if m, ok := t.MethodByName("Get"); ok && m.Type.NumIn() == 2 {
		kt = m.Type.In(1)
	} else {
		return "ordered map without a Get(key) method"
	}
	es := w.elemStruct(t)
	if es == nil {
		return "cannot find the list element struct"
	}
	keys := strings.Fields(n.Key)
	// element-struct fields of the keys, by the last element of any path alternative
	keyField := map[string]reflect.StructField{}
	for i := 0; i < es.NumField(); i++ {
		f := es.Field(i)
		if f.Tag.Get("ygotAnnotation") != "" {
			continue
		}
		for _, alt := range strings.Split(f.Tag.Get("path"), "|") {
			parts := strings.Split(alt, "/")
			last := parts[len(parts)-1]
			direct := len(parts) == 1 || (w.o.cfg.Compress && len(parts) == 2 && (parts[0] == "config" || parts[0] == "state"))
			if direct {
				for _, k := range keys {
					if k == last {
						if _, dup := keyField[k]; !dup {
							keyField[k] = f
						}
					}
				}
			}
		}
	}
	valType := func(f reflect.StructField) reflect.Type {
		if f.Type.Kind() == reflect.Ptr {
			return f.Type.Elem()
		}
		return f.Type
	}
	for _, k := range keys {
		if _, ok := keyField[k]; !ok {
			return fmt.Sprintf("element struct %s has no field for key %q", es.Name(), k)
		}
	}
	if len(keys) == 1 {
		if want := valType(keyField[keys[0]]); kt != want {
			return fmt.Sprintf("map key type %s, key leaf %q has Go type %s", kt, keys[0], want)
		}
		return ""
	}
	if kt.Kind() != reflect.Struct {
		return fmt.Sprintf("multi-key list needs a key struct, have %s", kt)
	}
	if kt.NumField() != len(keys) {
		return fmt.Sprintf("key struct %s has %d fields for keys %q", kt, kt.NumField(), n.Key)
	}
	// every key field of the element struct has a field of the same name and value type in the key struct
	for _, k := range keys {
		ef := keyField[k]
		kf, ok := kt.FieldByName(ef.Name)
		if !ok {
			return fmt.Sprintf("key struct %s has no field %s (key %q of element struct %s)", kt, ef.Name, k, es.Name())
		}
		if kf.Type != valType(ef) {
			return fmt.Sprintf("key struct field %s.%s is %s, element field %s.%s holds %s", kt.Name(), kf.Name, kf.Type, es.Name(), ef.Name, valType(ef))
		}
	}
	return ""
}
