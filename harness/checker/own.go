// Package checker is linked into the per-schema checker programs that the pipeline generates
// (C26, C27; C29 may reuse Own). It holds the harness's OWN goyang compilation of the YANG input
// (never ygen's), the reflection/tag conformance walk of C26 and the structural comparison of
// the embedded schema of C27.
package checker

import (
	"fmt"
	"path/filepath"
	"sort"
	"strings"

	"github.com/openconfig/goyang/pkg/yang"
)

// Config describes one generation run to the checker (written as JSON by the pipeline).
type Config struct {
	YangDir                string   // -path
	Roots                  []string // absolute paths of the positional YANG files
	Compress               bool
	PreferOperationalState bool
	ExcludeState           bool
	FakeRoot               bool
	FakeRootName           string // as passed (may be empty: default)
	SimpleUnions           bool
	UnorderedMaps          bool
	Annotations            bool
	IncludeDescriptions    bool
	YangPresence           bool
	Label                  string
}

// Own is the harness's own compilation of the input.
type Own struct {
	Modules []*yang.Entry          // module entries in goyang order (deduplicated by name)
	Top     map[string]*yang.Entry // merged top-level data nodes of all modules
	TopMod  map[string]string      // top-level node name -> module name
	nsToMod map[string]string      // namespace -> module name
	ms      *yang.Modules
}

// Compile parses the YANG files with goyang the way any consumer would: NewModules, AddPath,
// Read, Process, ToEntry.
func Compile(dir string, roots []string) (*Own, error) {
	ms := yang.NewModules()
	if dir != "" {
		ms.AddPath(filepath.Join(dir, "..."))
	}
	for _, r := range roots {
		if err := ms.Read(r); err != nil {
			return nil, fmt.Errorf("read %s: %v", r, err)
		}
	}
	if errs := ms.Process(); len(errs) > 0 {
		return nil, fmt.Errorf("process: %v", errs)
	}
	o := &Own{Top: map[string]*yang.Entry{}, TopMod: map[string]string{}, nsToMod: map[string]string{}, ms: ms}
	var names []string
	seen := map[string]bool{}
	for _, m := range ms.Modules {
		if !seen[m.Name] {
			seen[m.Name] = true
			names = append(names, m.Name)
		}
	}
	sort.Strings(names)
	for _, n := range names {
		m := ms.Modules[n]
		if m.Namespace != nil {
			o.nsToMod[m.Namespace.Name] = m.Name
		}
		e := yang.ToEntry(m)
		if errs := e.GetErrors(); len(errs) > 0 {
			return nil, fmt.Errorf("module %s: %v", n, errs)
		}
		o.Modules = append(o.Modules, e)
		for _, ch := range dataOrChoiceChildren(e) {
			if _, dup := o.Top[ch.Name]; dup {
				return nil, fmt.Errorf("top-level name %s defined by two modules", ch.Name)
			}
			o.Top[ch.Name] = ch
			o.TopMod[ch.Name] = n
		}
	}
	return o, nil
}

// isSchemaTreeNode: entries that are part of the schema tree (not rpc, notification, ...).
func isSchemaTreeNode(e *yang.Entry) bool {
	if e.RPC != nil {
		return false
	}
	switch e.Kind {
	case yang.LeafEntry, yang.DirectoryEntry, yang.ChoiceEntry, yang.CaseEntry:
		return true
	}
	return false
}

// dataOrChoiceChildren returns the schema-tree children of e (choices and cases included), sorted by name.
func dataOrChoiceChildren(e *yang.Entry) []*yang.Entry {
	var out []*yang.Entry
	for _, n := range sortedKeys(e.Dir) {
		c := e.Dir[n]
		if isSchemaTreeNode(c) {
			out = append(out, c)
		}
	}
	return out
}

func sortedKeys(m map[string]*yang.Entry) []string {
	ks := make([]string, 0, len(m))
	for k := range m {
		ks = append(ks, k)
	}
	sort.Strings(ks)
	return ks
}

func isChoiceOrCase(e *yang.Entry) bool { return e.Kind == yang.ChoiceEntry || e.Kind == yang.CaseEntry }

// dataChildren returns the data-node children of e: choices and cases are transparent.
func dataChildren(e *yang.Entry) []*yang.Entry {
	var out []*yang.Entry
	for _, c := range dataOrChoiceChildren(e) {
		if isChoiceOrCase(c) {
			out = append(out, dataChildren(c)...)
		} else {
			out = append(out, c)
		}
	}
	return out
}

// findData finds the data child called name below e (looking through choices/cases).
func findData(e *yang.Entry, name string) *yang.Entry {
	for _, c := range dataChildren(e) {
		if c.Name == name {
			return c
		}
	}
	return nil
}

// isConfig: RFC 7950 7.21.1 - config is inherited; an explicit false anywhere above wins.
func isConfig(e *yang.Entry) bool {
	for ; e != nil; e = e.Parent {
		switch e.Config {
		case yang.TSFalse:
			return false
		case yang.TSTrue:
			return true
		}
	}
	return true
}

func isLeaf(e *yang.Entry) bool     { return e.Kind == yang.LeafEntry && e.ListAttr == nil }
func isLeafList(e *yang.Entry) bool { return e.Kind == yang.LeafEntry && e.ListAttr != nil }
func isList(e *yang.Entry) bool     { return e.Kind == yang.DirectoryEntry && e.ListAttr != nil }
func isContainer(e *yang.Entry) bool {
	return e.Kind == yang.DirectoryEntry && e.ListAttr == nil
}

func kindName(e *yang.Entry) string {
	switch {
	case e == nil:
		return "nil"
	case isLeaf(e):
		return "leaf"
	case isLeafList(e):
		return "leaf-list"
	case isList(e):
		if e.Key == "" {
			return "unkeyed-list"
		}
		return "list"
	case isContainer(e):
		return "container"
	case e.Kind == yang.ChoiceEntry:
		return "choice"
	case e.Kind == yang.CaseEntry:
		return "case"
	}
	return fmt.Sprintf("kind-%d", e.Kind)
}

// belongingModule returns the name of the module whose namespace the node lives in.
func (o *Own) belongingModule(e *yang.Entry) string {
	if ns := e.Namespace(); ns != nil {
		if m, ok := o.nsToMod[ns.Name]; ok {
			return m
		}
	}
	return ""
}

// dataPath returns the data-tree path elements of e below the module (choices/cases skipped).
func dataPath(e *yang.Entry) []string {
	var p []string
	for ; e != nil && e.Parent != nil; e = e.Parent {
		if !isChoiceOrCase(e) {
			p = append([]string{e.Name}, p...)
		}
	}
	return p
}

// resolveLeafref evaluates the leafref path of leaf e on the own tree (XPath subset: absolute or
// relative location path, prefixes ignored, predicates stripped, current()-free).
func (o *Own) resolveLeafref(e *yang.Entry, path string) *yang.Entry {
	path = stripPredicates(path)
	var cur *yang.Entry
	parts := strings.Split(path, "/")
	if strings.HasPrefix(path, "/") {
		parts = parts[1:]
		if len(parts) == 0 {
			return nil
		}
		cur = o.Top[localName(parts[0])]
		parts = parts[1:]
	} else {
		cur = e
		// the context node is the leaf itself; ".." moves to the parent data node
	}
	for _, p := range parts {
		if cur == nil {
			return nil
		}
		switch p {
		case "", ".":
		case "..":
			cur = cur.Parent
			for cur != nil && isChoiceOrCase(cur) {
				cur = cur.Parent
			}
		default:
			if cur.Parent == nil { // module level
				cur = o.Top[localName(p)]
			} else {
				cur = findData(cur, localName(p))
			}
		}
	}
	return cur
}

func localName(s string) string {
	if i := strings.LastIndex(s, ":"); i >= 0 {
		return s[i+1:]
	}
	return s
}

func stripPredicates(p string) string {
	var b strings.Builder
	depth := 0
	for _, r := range p {
		switch {
		case r == '[':
			depth++
		case r == ']':
			depth--
		case depth == 0 && r != ' ' && r != '\t' && r != '\n':
			b.WriteRune(r)
		}
	}
	return b.String()
}

// resolvedType follows leafrefs to the type that decides the Go representation.
func (o *Own) resolvedType(e *yang.Entry) *yang.YangType {
	t := e.Type
	for i := 0; t != nil && t.Kind == yang.Yleafref && i < 10; i++ {
		tgt := o.resolveLeafref(e, t.Path)
		if tgt == nil || tgt.Type == nil {
			return nil
		}
		e, t = tgt, tgt.Type
	}
	return t
}
