// Package th holds helpers shared by the tree-based property packages: variant choice, class labels,
// samples, and the witnesses / trigger predicates of known findings that several properties meet.
package th

import (
	"fmt"
	"strings"

	"pgregory.net/rapid"
	"verifharness/ev"
	"verifharness/model"
	"verifharness/variants"
)

// AllVariants lists the corpus variants (DESIGN.md 3.1).
var AllVariants = []string{"vtu", "vtw", "vocc", "voco", "vocu", "voccw"}

// PickVariant draws one of the named variants.
func PickVariant(rt *rapid.T, names ...string) *model.Variant {
	n := rapid.SampledFrom(names).Draw(rt, "variant")
	return variants.Get(n)
}

// TreeClasses labels a generated tree for the evidence histogram.
func TreeClasses(v *model.Variant, s model.Stats) []string {
	cl := []string{"variant:" + v.Name}
	add := func(c bool, n string) {
		if c {
			cl = append(cl, n)
		}
	}
	add(s.Leaves == 0 && s.LeafLists == 0, "tree:empty")
	add(s.Leaves+s.LeafLists >= 20, "tree:>=20-leaves")
	add(s.Entries > 0, "tree:keyed-entry")
	add(s.OrdEntries > 0, "tree:ordered-entry")
	add(s.UEntries > 0, "tree:unkeyed-entry")
	add(s.Presence > 0, "tree:presence")
	add(s.Unions > 0, "tree:union")
	add(s.Enums > 0, "tree:enum-or-identity")
	add(s.Decimals > 0, "tree:decimal64")
	add(s.Int64s > 0, "tree:64-bit")
	add(s.Binaries > 0, "tree:binary")
	add(s.Empties > 0, "tree:empty-leaf")
	add(s.LeafLists > 0, "tree:leaf-list")
	for k := range s.KeyKinds {
		cl = append(cl, "key:"+k)
	}
	return cl
}

// Trunc shortens s for samples.
func Trunc(s string, n int) string {
	if len(s) <= n {
		return s
	}
	return s[:n] + fmt.Sprintf("… (%d bytes more)", len(s)-n)
}

// SampleTree records a compact dump of a case.
func SampleTree(rec *ev.Rec, v *model.Variant, m *model.Node, extra string) {
	if rec.WantSample() {
		rec.Sample(map[string]string{"variant": v.Name, "tree": Trunc(m.Dump(), 1500), "case": extra})
	}
}

// JoinDiff renders a model.Diff result.
func JoinDiff(d []string) string { return strings.Join(d, "\n  ") }

// UnmarshalErr unmarshals js into an empty root of variant name.
func UnmarshalErr(name, js string) error {
	v := variants.Get(name)
	return v.Unmarshal([]byte(js), v.NewRoot())
}

// ---- F28: wrapper unions cannot unmarshal a binary member from JSON --------------------------------

// F28 is the id of the finding.
const F28 = "F28-wrapper-union-binary-json"

// WitnessF28 replays the witness of F28.
func WitnessF28(rec *ev.Rec) {
	rec.Witness(F28, func() (bool, string) {
		err := UnmarshalErr("vtw", `{"top":{"mixed":"AA=="}}`)
		if err != nil {
			return true, fmt.Sprintf(`vtw Unmarshal {"top":{"mixed":"AA=="}} (binary member of a wrapper union): %v`, err)
		}
		return false, ""
	})
}

// UnionBinary: the tree holds a binary value in a union-typed leaf, leaf-list or key.
func UnionBinary(m *model.Node) bool {
	return m.AnyVal(func(f *model.FieldInfo, v model.Val) bool { return f.ElemUnion && v.K == model.KBin })
}

// AvoidUnionBinary is a GenOpts.Avoid predicate for F28.
func AvoidUnionBinary(f *model.FieldInfo, v model.Val) bool { return f.ElemUnion && v.K == model.KBin }

// IsF28 matches trigger and signature of F28.
func IsF28(v *model.Variant, m *model.Node, err error) bool {
	return v.Wrapper && err != nil && strings.Contains(err.Error(), "does not have a union type") &&
		strings.Contains(err.Error(), "[]uint8") && UnionBinary(m)
}
