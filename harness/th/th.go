// Package th holds helpers shared by the tree-based property packages: variant choice, class labels,
// samples, and the witnesses / trigger predicates of known findings that several properties meet.
package th

import (
	"fmt"
	"reflect"
	"strings"

	"github.com/openconfig/goyang/pkg/yang"
	gpb "github.com/openconfig/gnmi/proto/gnmi"
	"github.com/openconfig/ygot/ygot"
	"github.com/openconfig/ygot/ytypes"
	"pgregory.net/rapid"
	"verifharness/ev"
	"verifharness/model"
	"verifharness/variants"
)

// AllVariants lists the corpus variants (DESIGN.md 3.1).
var AllVariants = []string{"vtu", "vtw", "vocc", "voco", "vocu", "voccw", "vtu2"}

// PickVariant draws one of the named variants.
func PickVariant(rt *rapid.T, names ...string) *model.Variant {
	n := rapid.SampledFrom(names).Draw(rt, "variant")
	return variants.Get(n)
}

// TreeClasses labels a generated tree for the evidence histogram.
func TreeClasses(v *model.Variant, s model.Stats) []string {
	cl := []string{"variant:" + v.Name}
	add := func(c bool, n string) {
		if c {
			cl = append(cl, n)
		}
	}
	add(s.Leaves == 0 && s.LeafLists == 0, "tree:empty")
	add(s.Leaves+s.LeafLists >= 20, "tree:>=20-leaves")
	add(s.Entries > 0, "tree:keyed-entry")
	add(s.OrdEntries > 0, "tree:ordered-entry")
	add(s.UEntries > 0, "tree:unkeyed-entry")
	add(s.Presence > 0, "tree:presence")
	add(s.Unions > 0, "tree:union")
	add(s.Enums > 0, "tree:enum-or-identity")
	add(s.Decimals > 0, "tree:decimal64")
	add(s.Int64s > 0, "tree:64-bit")
	add(s.Binaries > 0, "tree:binary")
	add(s.Empties > 0, "tree:empty-leaf")
	add(s.LeafLists > 0, "tree:leaf-list")
	for k := range s.KeyKinds {
		cl = append(cl, "key:"+k)
	}
	return cl
}

// Trunc shortens s for samples.
func Trunc(s string, n int) string {
	if len(s) <= n {
		return s
	}
	return s[:n] + fmt.Sprintf("… (%d bytes more)", len(s)-n)
}

// SampleTree records a compact dump of a case.
func SampleTree(rec *ev.Rec, v *model.Variant, m *model.Node, extra string) {
	if rec.WantSample() {
		rec.Sample(map[string]string{"variant": v.Name, "tree": Trunc(m.Dump(), 1500), "case": extra})
	}
}

// JoinDiff renders a model.Diff result.
func JoinDiff(d []string) string { return strings.Join(d, "\n  ") }

// UnmarshalErr unmarshals js into an empty root of variant name.
func UnmarshalErr(name, js string) error {
	v := variants.Get(name)
	return v.Unmarshal([]byte(js), v.NewRoot())
}

// ---- F28: wrapper unions cannot unmarshal a binary member from JSON --------------------------------

// F28 is the id of the finding.
const F28 = "F28-wrapper-union-binary"

// WitnessF28 replays the witness of F28.
func WitnessF28(rec *ev.Rec) {
	rec.Witness(F28, func() (bool, string) {
		err := UnmarshalErr("vtw", `{"top":{"mixed":"AA=="}}`)
		if err != nil {
			return true, fmt.Sprintf(`vtw Unmarshal {"top":{"mixed":"AA=="}} (binary member of a wrapper union): %v`, err)
		}
		return false, ""
	})
}

// UnionBinary: the tree holds a binary value in a union-typed leaf, leaf-list or key.
func UnionBinary(m *model.Node) bool {
	return m.AnyVal(func(f *model.FieldInfo, v model.Val) bool { return f.ElemUnion && v.K == model.KBin })
}

// AvoidUnionBinary is a GenOpts.Avoid predicate for F28.
func AvoidUnionBinary(f *model.FieldInfo, v model.Val) bool { return f.ElemUnion && v.K == model.KBin }

// IsF28 matches trigger and signature of F28.
func IsF28(v *model.Variant, m *model.Node, err error) bool {
	return v.Wrapper && err != nil && strings.Contains(err.Error(), "does not have a union type") &&
		strings.Contains(err.Error(), "[]uint8") && UnionBinary(m)
}

// WitnessAll replays the witnesses of the findings shared between the tree checks.
func WitnessAll(rec *ev.Rec) {
	WitnessF1(rec)
	WitnessF2(rec)
	WitnessF3(rec)
	WitnessF28(rec)
	WitnessF29(rec)
	WitnessF30(rec)
	WitnessF31(rec)
	WitnessF32(rec)
	WitnessF33(rec)
}

// ---- F1 / F2 / F3: gNMI encoding and decoding gaps ------------------------------------------------

const (
	F1 = "F1-int64-list-key"
	F2 = "F2-empty-leaf-gnmi"
	F3 = "F3-empty-leaflist-gnmi"
)

func notifs(name string, build func(v *model.Variant, root *model.Node)) ([]*gpb.Notification, *model.Variant, error) {
	v := variants.Get(name)
	m := model.NewNode(v.Root)
	build(v, m)
	ns, err := ygot.TogNMINotifications(model.Build(m), 1, ygot.GNMINotificationsConfig{UsePathElem: true})
	return ns, v, err
}

func applyNotifs(v *model.Variant, ns []*gpb.Notification) error {
	sch := &ytypes.Schema{Root: v.NewRoot(), SchemaTree: v.Schema().SchemaTree, Unmarshal: v.Schema().Unmarshal}
	return ytypes.UnmarshalNotifications(sch, ns)
}

// child returns (creating) the container field name below n.
func Child(n *model.Node, name string) *model.Node {
	f := n.SI.ByName[name]
	c := n.Cont[name]
	if c == nil {
		c = model.NewNode(f.Child)
		n.Cont[name] = c
	}
	return c
}

// WitnessF1: a list keyed by an int64 leaf cannot be rendered to gNMI paths.
func WitnessF1(rec *ev.Rec) {
	rec.Witness(F1, func() (bool, string) {
		_, _, err := notifs("vtu", func(v *model.Variant, m *model.Node) {
			k := Child(Child(m, "Top"), "Keyed")
			f := k.SI.ByName["KI64"]
			k.List["KI64"] = []*model.Entry{model.NewEntry(f, []model.Val{{K: model.KInt64, I: -5}})}
		})
		if err != nil {
			return true, "TogNMINotifications of /top/keyed/k-i64[k=-5]: " + err.Error()
		}
		return false, ""
	})
}

// HasInt64Key: some populated list of the tree has an int64 key leaf.
func HasInt64Key(m *model.Node) bool {
	return m.AnyVal(func(f *model.FieldInfo, v model.Val) bool { return f.IsKey && v.K == model.KInt64 })
}

// IsF1Err matches trigger and signature of F1.
func IsF1Err(m *model.Node, err error) bool {
	return err != nil && HasInt64Key(m) && strings.Contains(err.Error(), "int64")
}

// WitnessF2: a YANG empty leaf is emitted as bool_val and then rejected when applied.
func WitnessF2(rec *ev.Rec) {
	rec.Witness(F2, func() (bool, string) {
		ns, v, err := notifs("vtu", func(v *model.Variant, m *model.Node) {
			Child(m, "Top").Leaf["E"] = model.Val{K: model.KEmpty}
		})
		if err != nil {
			return true, "TogNMINotifications of /top/e: " + err.Error()
		}
		if err := applyNotifs(v, ns); err != nil {
			return true, "UnmarshalNotifications of the update ygot emits for the empty leaf /top/e: " + err.Error()
		}
		return false, ""
	})
}

// HasEmpty: the tree holds a leaf of type empty.
func HasEmpty(m *model.Node) bool {
	return m.AnyVal(func(f *model.FieldInfo, v model.Val) bool { return v.K == model.KEmpty })
}

// IsF2Err matches trigger and signature of F2.
func IsF2Err(m *model.Node, err error) bool {
	return err != nil && HasEmpty(m) && (strings.Contains(err.Error(), "YANGEmpty") || strings.Contains(err.Error(), "empty"))
}

// WitnessF3: a non-nil empty leaf-list is emitted as an empty leaflist_val and then rejected.
func WitnessF3(rec *ev.Rec) {
	rec.Witness(F3, func() (bool, string) {
		ns, v, err := notifs("vtu", func(v *model.Variant, m *model.Node) {
			t := Child(m, "Top")
			t.EmptyLL["LlS"] = true
			t.Leaf["S"] = model.Val{K: model.KStr, S: "x"}
		})
		if err != nil {
			return true, "TogNMINotifications with an empty non-nil leaf-list: " + err.Error()
		}
		if err := applyNotifs(v, ns); err != nil {
			return true, "UnmarshalNotifications of the update ygot emits for an empty non-nil leaf-list: " + err.Error()
		}
		return false, ""
	})
}

// IsF3Err matches trigger and signature of F3.
func IsF3Err(hasEmptyLL bool, err error) bool {
	return err != nil && hasEmptyLL && strings.Contains(err.Error(), "leaf")
}

// SteerAway makes the trigger regions of the active findings rare (never absent) in generated trees.
func SteerAway(rec *ev.Rec, o *model.GenOpts) {
	f1, f2, f3, f28, f33 := rec.Active(F1), rec.Active(F2), rec.Active(F3), rec.Active(F28), rec.Active(F33)
	o.Rare = func(f *model.FieldInfo) bool {
		if f33 && f.Owner.V.Wrapper && (f.Kind == model.FList || f.Kind == model.FOrdList) {
			for _, kf := range f.KeyFields {
				if kf.ElemUnion {
					return true
				}
			}
		}
		if f1 && (f.Kind == model.FList || f.Kind == model.FOrdList) {
			for _, kf := range f.KeyFields {
				if kf.Type.VKind() == model.KInt64 {
					return true
				}
			}
		}
		if f2 && f.Kind == model.FLeaf && f.Type.VKind() == model.KEmpty {
			return true
		}
		return false
	}
	if f3 {
		o.EmptyLLPct = 1
	}
	if f28 {
		o.Avoid = func(f *model.FieldInfo, v model.Val) bool {
			return f.Owner.V.Wrapper && AvoidUnionBinary(f, v)
		}
	}
}

// ---- F29 / F30: Diff ------------------------------------------------------------------------------

const (
	F29 = "F29-diff-zero-union"
	F30 = "F30-delete-order-enum-key"
)

// WitnessF29: Diff drops a union leaf holding the zero value of a simple union type.
func WitnessF29(rec *ev.Rec) {
	rec.Witness(F29, func() (bool, string) {
		v := variants.Get("vtu")
		a, b := model.NewNode(v.Root), model.NewNode(v.Root)
		Child(b, "Top").Leaf["Mixed"] = model.Val{K: model.KUint64, U: 0}
		n, err := ygot.Diff(model.Build(a), model.Build(b))
		if err != nil {
			return true, err.Error()
		}
		if len(n.Update) != 1 {
			return true, fmt.Sprintf("Diff(empty, {/top/mixed = UnionUint64(0)}) has %d updates, want 1", len(n.Update))
		}
		return false, ""
	})
}

// WitnessF30: deleting the key leaf of an enum-keyed entry before its other leaves leaves them behind.
func WitnessF30(rec *ev.Rec) {
	rec.Witness(F30, func() (bool, string) {
		v := variants.Get("vtu")
		a := model.NewNode(v.Root)
		k := Child(Child(a, "Top"), "Keyed")
		f := k.SI.ByName["KEnum"]
		m := f.KeyFields[0].Type.Enum[1]
		e := model.NewEntry(f, []model.Val{model.EnumVal(f.KeyFields[0].Type, m)})
		e.N.Leaf["V"] = model.Val{K: model.KStr, S: "a"}
		k.List["KEnum"] = []*model.Entry{e}
		root := model.Build(a)
		sch := &ytypes.Schema{Root: root, SchemaTree: v.Schema().SchemaTree, Unmarshal: v.Schema().Unmarshal}
		base := model.EntryElems([]model.PElem{{Name: "top"}, {Name: "keyed"}}, f, 0, e.Key)
		del := func(leaf string) *gpb.Path { return model.PathProto(append(append([]model.PElem{}, base...), model.PElem{Name: leaf})) }
		if err := ytypes.UnmarshalNotifications(sch, []*gpb.Notification{{Delete: []*gpb.Path{del("k"), del("v")}}}); err != nil {
			return true, "deleting k then v of /top/keyed/k-enum[k=GREEN]: " + err.Error()
		}
		if got := model.ObserveNorm(v, root); len(model.LeafMap(got, model.InstOpts{})) != 0 {
			return true, "after deleting k then v of /top/keyed/k-enum[k=GREEN] the tree still holds " + fmt.Sprint(model.LeafMap(got, model.InstOpts{}))
		}
		return false, ""
	})
}

// ---- F31 / F32 --------------------------------------------------------------------------------------

const (
	F31 = "F31-decimal-key-exponent"
	F32 = "F32-multikey-json-order"
)

// WitnessF31: a decimal64 list key >= 1e6 is rendered with an exponent by ygot, so the RFC 7950
// canonical key string does not match the existing entry and SetNode replaces it (losing its leaves).
func WitnessF31(rec *ev.Rec) {
	rec.Witness(F31, func() (bool, string) {
		v := variants.Get("vtu")
		a := model.NewNode(v.Root)
		k := Child(Child(a, "Top"), "Keyed")
		f := k.SI.ByName["KDec"]
		key := model.Val{K: model.KDec, F: 1234567.5, FD: 3}
		e := model.NewEntry(f, []model.Val{key})
		e.N.Leaf["V"] = model.Val{K: model.KStr, S: "x"}
		k.List["KDec"] = []*model.Entry{e}
		root := model.Build(a)
		sch := &ytypes.Schema{Root: root, SchemaTree: v.Schema().SchemaTree, Unmarshal: v.Schema().Unmarshal}
		p := model.PathProto(append(model.EntryElems([]model.PElem{{Name: "top"}, {Name: "keyed"}}, f, 0, e.Key), model.PElem{Name: "k"}))
		err := ytypes.UnmarshalSetRequest(sch, &gpb.SetRequest{Update: []*gpb.Update{{Path: p, Val: model.ScalarTV(key)}}})
		if err != nil {
			return true, "update of /top/keyed/k-dec[k=1234567.5]/k: " + err.Error()
		}
		if d := model.Diff(a, model.ObserveNorm(v, root), model.DiffOpts{}); len(d) > 0 {
			return true, "writing the key leaf of the existing entry /top/keyed/k-dec[k=1234567.5] through the canonical key string changed the entry: " + JoinDiff(d)
		}
		return false, ""
	})
}

// WitnessF32: with wrapper unions the entries of a multi-key list were ordered by pointer addresses,
// so equal trees rendered differently. Ten independent builds of one tree must render identically.
func WitnessF32(rec *ev.Rec) {
	rec.Witness(F32, func() (bool, string) {
		v := variants.Get("vtw")
		a := model.NewNode(v.Root)
		k := Child(Child(a, "Top"), "Keyed")
		f := k.SI.ByName["Mk3"]
		en := f.KeyFields[0].Type
		for i := 0; i < 4; i++ {
			key := []model.Val{model.EnumVal(en, en.Enum[0]), {K: model.KInt64, I: 7}, {K: model.KInt16, I: int64(i)}}
			k.List["Mk3"] = append(k.List["Mk3"], model.NewEntry(f, key))
		}
		var first string
		for i := 0; i < 10; i++ {
			js, err := ygot.Marshal7951(model.Build(a))
			if err != nil {
				return true, err.Error()
			}
			if i == 0 {
				first = string(js)
			} else if string(js) != first {
				return true, "two builds of the same vtw tree with four /top/keyed/mk3 entries render differently:\n" + first + "\n" + string(js)
			}
		}
		return false, ""
	})
}

// ---- F21 / F22: DeleteNode ----------------------------------------------------------------------------

const (
	F21 = "F21-delete-whole-list"
	F22 = "F22-emptied-ordered-map-not-pruned"
)

// IsNotFound matches DeleteNode's NotFound error.
func IsNotFound(err error) bool {
	return err != nil && (strings.Contains(err.Error(), "NotFound") || strings.Contains(err.Error(), "not found"))
}

func rootSchema(v *model.Variant, root ygot.GoStruct) *yang.Entry {
	return v.Schema().SchemaTree[reflect.TypeOf(root).Elem().Name()]
}

// WitnessF21: DeleteNode on a keyed-list path without keys answers NotFound and deletes nothing.
func WitnessF21(rec *ev.Rec) {
	rec.Witness(F21, func() (bool, string) {
		v := variants.Get("vtu")
		a := model.NewNode(v.Root)
		k := Child(Child(a, "Top"), "Keyed")
		f := k.SI.ByName["KU8"]
		k.List["KU8"] = []*model.Entry{model.NewEntry(f, []model.Val{{K: model.KUint8, U: 5}})}
		root := model.Build(a)
		p := model.PathProto([]model.PElem{{Name: "top"}, {Name: "keyed"}, {Name: "k-u8"}})
		err := ytypes.DeleteNode(rootSchema(v, root), root, p)
		if err != nil {
			return true, "DeleteNode(/top/keyed/k-u8) on a tree holding k-u8[k=5]: " + err.Error()
		}
		if got := model.ObserveNorm(v, root); len(model.LeafMap(got, model.InstOpts{})) != 0 {
			return true, "DeleteNode(/top/keyed/k-u8) returned nil but the list is still there"
		}
		return false, ""
	})
}

// WitnessF22: an ordered map emptied by deleting its last entry stays non-nil, so the surrounding
// container is not pruned.
func WitnessF22(rec *ev.Rec) {
	rec.Witness(F22, func() (bool, string) {
		v := variants.Get("vtu")
		a := model.NewNode(v.Root)
		o := Child(Child(a, "Top"), "Ordered")
		f := o.SI.ByName["O1"]
		e := model.NewEntry(f, []model.Val{{K: model.KStr, S: "a"}})
		o.List["O1"] = []*model.Entry{e}
		root := model.Build(a)
		p := model.PathProto(model.EntryElems([]model.PElem{{Name: "top"}, {Name: "ordered"}}, f, 0, e.Key))
		if err := ytypes.DeleteNode(rootSchema(v, root), root, p); err != nil {
			return true, "DeleteNode(/top/ordered/o1[k=a]): " + err.Error()
		}
		got := model.Observe(v, root)
		if c := got.Cont["Top"]; c != nil {
			return true, "after deleting the only entry /top/ordered/o1[k=a] the containers on the way are still present:\n" + got.Dump()
		}
		return false, ""
	})
}

// OrderedEmptied: some ordered list that held entries in `before` has none in `after`.
func OrderedEmptied(before, after *model.Node) bool {
	count := func(n *model.Node) map[string]int {
		c := map[string]int{}
		for _, s := range model.Sites(n) {
			for _, f := range s.N.SI.Fields {
				if f.Kind == model.FOrdList && len(s.N.List[f.Name]) > 0 {
					c[model.ElemsID(s.Elems)+"/"+f.Name] = len(s.N.List[f.Name])
				}
			}
		}
		return c
	}
	b, a := count(before), count(after)
	for k := range b {
		if a[k] == 0 {
			return true
		}
	}
	return false
}

// ---- F33: wrapper unions as list keys ---------------------------------------------------------------

const F33 = "F33-wrapper-union-list-key"

// WitnessF33: with wrapper unions a list keyed by a union holds pointer-valued map keys, so merging
// into an existing entry by key creates a second entry with the same key instead.
func WitnessF33(rec *ev.Rec) {
	rec.Witness(F33, func() (bool, string) {
		v := variants.Get("vtw")
		root := v.NewRoot()
		for _, js := range []string{`{"top":{"keyed":{"k-union":[{"k":5,"v":"a"}]}}}`, `{"top":{"keyed":{"k-union":[{"k":5,"v":"b"}]}}}`} {
			if err := v.Unmarshal([]byte(js), root); err != nil {
				return true, err.Error()
			}
		}
		got := model.Observe(v, root)
		if n := len(got.Cont["Top"].Cont["Keyed"].List["KUnion"]); n != 1 {
			return true, fmt.Sprintf("unmarshalling k-union[k=5] twice into a vtw tree gives %d entries with key 5, want 1", n)
		}
		return false, ""
	})
}

// UnionKeyed: the tree holds an entry of a list that has a union-typed key.
func UnionKeyed(m *model.Node) bool {
	return m.AnyField(func(_ *model.Node, f *model.FieldInfo) bool {
		if f.Kind != model.FList && f.Kind != model.FOrdList {
			return false
		}
		for _, kf := range f.KeyFields {
			if kf.ElemUnion {
				return true
			}
		}
		return false
	})
}
