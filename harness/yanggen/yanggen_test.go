package yanggen

import (
	"fmt"
	"os"
	"sort"
	"strings"
	"testing"

	"github.com/openconfig/goyang/pkg/yang"
	"pgregory.net/rapid"
)

// misorderedLists compiles the schema with goyang and returns the lists whose entry name space
// (direct data children, choice/case flattened, plus the children of config / state containers,
// which compression hoists) satisfies keyMisorder: an independent recount of the class label.
func misorderedLists(s *Schema) []string {
	ms := yang.NewModules()
	for _, n := range s.fileNames() {
		if err := ms.Parse(s.Files[n], n); err != nil {
			return nil
		}
	}
	if errs := ms.Process(); len(errs) > 0 {
		return nil
	}
	var out []string
	var data func(e *yang.Entry, into map[string]*yang.Entry)
	data = func(e *yang.Entry, into map[string]*yang.Entry) {
		for n, c := range e.Dir {
			if c.IsChoice() || c.IsCase() {
				data(c, into)
				continue
			}
			into[n] = c
		}
	}
	var walk func(e *yang.Entry)
	walk = func(e *yang.Entry) {
		ch := map[string]*yang.Entry{}
		data(e, ch)
		if e.IsList() && e.Key != "" {
			names := map[string]bool{}
			for n, c := range ch {
				names[n] = true
				if n == "config" || n == "state" {
					sub := map[string]*yang.Entry{}
					data(c, sub)
					for x := range sub {
						names[x] = true
					}
				}
			}
			var all []string
			for n := range names {
				all = append(all, n)
			}
			if keyMisorder(all, strings.Fields(e.Key)) {
				out = append(out, e.Path())
			}
		}
		for _, c := range ch {
			walk(c)
		}
	}
	seen := map[string]bool{}
	for _, m := range ms.Modules {
		if seen[m.Name] {
			continue
		}
		seen[m.Name] = true
		walk(yang.ToEntry(m))
	}
	sort.Strings(out)
	return out
}

// structNameKeyLists: top-level <wrapper>/<list> pairs one of whose keys has the CamelCase name of the
// list (the name of the entry struct under compression): independent recount of key-struct-name.
func structNameKeyLists(s *Schema) []string {
	ms := yang.NewModules()
	for _, n := range s.fileNames() {
		if err := ms.Parse(s.Files[n], n); err != nil {
			return nil
		}
	}
	if errs := ms.Process(); len(errs) > 0 {
		return nil
	}
	var out []string
	seen := map[string]bool{}
	for _, m := range ms.Modules {
		if seen[m.Name] {
			continue
		}
		seen[m.Name] = true
		for _, w := range yang.ToEntry(m).Dir {
			if !w.IsContainer() {
				continue
			}
			for _, l := range w.Dir {
				if !l.IsList() {
					continue
				}
				for _, k := range strings.Fields(l.Key) {
					if yang.CamelCase(k) == yang.CamelCase(l.Name) {
						out = append(out, l.Path())
					}
				}
				if packageHelpers[yang.CamelCase(l.Name)] {
					out = append(out, "helper:"+l.Path())
				}
			}
			if packageHelpers[yang.CamelCase(w.Name)] {
				out = append(out, "helper:"+w.Path())
			}
		}
	}
	sort.Strings(out)
	return out
}

// sameNamedEnumTypedefs: typedef names that two modules define with an enumerated resolved type
// (independent recount of typedef-enum-same-name on goyang's resolved types).
func sameNamedEnumTypedefs(s *Schema) []string {
	ms := yang.NewModules()
	for _, n := range s.fileNames() {
		if err := ms.Parse(s.Files[n], n); err != nil {
			return nil
		}
	}
	if errs := ms.Process(); len(errs) > 0 {
		return nil
	}
	count := map[string]int{}
	seen := map[string]bool{}
	for _, m := range ms.Modules {
		if seen[m.Name] {
			continue
		}
		seen[m.Name] = true
		for _, td := range m.Typedef {
			if td.YangType == nil {
				panic("goyang left typedef " + td.Name + " unresolved")
			}
			if k := td.YangType.Kind; k == yang.Yenum || k == yang.Yidentityref {
				count[td.Name]++
			}
		}
	}
	var out []string
	for n, c := range count {
		if c > 1 {
			out = append(out, n)
		}
	}
	sort.Strings(out)
	return out
}

func TestKeyMisorder(t *testing.T) {
	for _, c := range []struct {
		names, keys []string
		want        bool
	}{
		{[]string{"key", "Key"}, []string{"key", "Key"}, true},
		{[]string{"key", "Key"}, []string{"Key", "key"}, false},
		{[]string{"policy", "Policy", "name"}, []string{"policy"}, true},
		{[]string{"policy", "Policy", "name"}, []string{"Policy"}, false},
		{[]string{"a-b", "a_b", "x"}, []string{"a-b", "a_b"}, false},
		{[]string{"if-name", "if-Name"}, []string{"if-name", "if-Name"}, false}, // If_Name: no clash
		{[]string{"vlanId", "vlan-id"}, []string{"vlanId", "vlan-id"}, true},
		{[]string{"vlanId", "vlan-id"}, []string{"vlan-id", "vlanId"}, false},
		{[]string{"kind", "Kind", "State", "state", "config"}, []string{"State", "kind", "Kind"}, true},
		{[]string{"a", "b"}, []string{"b", "a"}, false},
	} {
		if got := keyMisorder(c.names, c.keys); got != c.want {
			t.Errorf("keyMisorder(%v, %v) = %v, want %v", c.names, c.keys, got, c.want)
		}
	}
}

// Accepts reports whether goyang parses and processes the schema (the soundness contract).
func accepts(s *Schema) []error {
	ms := yang.NewModules()
	for _, n := range s.fileNames() {
		if err := ms.Parse(s.Files[n], n); err != nil {
			return []error{err}
		}
	}
	if errs := ms.Process(); len(errs) > 0 {
		return errs
	}
	seen := map[string]bool{}
	for _, m := range ms.Modules {
		if seen[m.Name] {
			continue
		}
		seen[m.Name] = true
		if errs := yang.ToEntry(m).GetErrors(); len(errs) > 0 {
			return errs
		}
	}
	return nil
}

// TestYanggenSelf draws many schemas in every mode and requires goyang to accept them.
func TestYanggenSelf(t *testing.T) {
	hist := map[string]int{}
	excl := map[string]int{}
	total, rejected, nodes := 0, 0, 0
	var firstBad string
	modes := []Options{
		{}, {Hostile: true}, {OpenConfigStyle: true}, {OpenConfigStyle: true, Hostile: true},
		{Small: true, MaxModules: 1}, {Small: true, OpenConfigStyle: true, MaxModules: 2},
		{Hostile: true, Excluded: map[string]bool{ClEnumUNSET: true, ClKeyKey: true, ClKeyOrder: true, ClIdentSameName: true}},
		{Hostile: true, OpenConfigStyle: true, Excluded: map[string]bool{ClKeyKey: true, ClKeyOrder: true, ClKeyStructName: true, ClTopHelper: true, ClTypedefSameName: true}},
	}
	rapid.Check(t, func(rt *rapid.T) {
		o := modes[rapid.IntRange(0, len(modes)-1).Draw(rt, "mode")]
		s := Draw(rt, o)
		total++
		nodes += strings.Count(s.Key(), "\n")
		for k, v := range s.Features {
			hist[k] += v
		}
		for k, v := range s.ExcludedDraws {
			excl[k] += v
			if !o.Excluded[k] {
				rt.Fatalf("class %s counted as excluded but not in Options.Excluded", k)
			}
		}
		for k := range o.Excluded {
			if s.Features["collision:"+k] > 0 {
				rt.Fatalf("excluded class %s was drawn", k)
			}
		}
		if len(s.Roots) == 0 {
			rt.Fatalf("no roots")
		}
		// the label of the key-misorder class is complete: a list of the compiled schema has the shape => the class
		// was drawn (the converse fails for lists inside groupings that are never used)
		if mis := misorderedLists(s); len(mis) > 0 && s.Features["collision:"+ClKeyOrder] == 0 {
			rt.Fatalf("class %s: label count %d, lists with the shape in the compiled schema: %v\n%s", ClKeyOrder, s.Features["collision:"+ClKeyOrder], mis, s.Key())
		}
		if tds := sameNamedEnumTypedefs(s); (len(tds) > 0) != (s.Features["collision:"+ClTypedefSameName] > 0) {
			rt.Fatalf("class %s: label count %d, same-named enumerated typedefs in the compiled schema: %v\n%s", ClTypedefSameName, s.Features["collision:"+ClTypedefSameName], tds, s.Key())
		}
		if o.OpenConfigStyle {
			for _, l := range structNameKeyLists(s) {
				cl := ClKeyStructName
				if strings.HasPrefix(l, "helper:") {
					cl = ClTopHelper
				}
				if s.Features["collision:"+cl] == 0 {
					rt.Fatalf("class %s not labelled but present in the compiled schema: %v\n%s", cl, l, s.Key())
				}
			}
		}
		if errs := accepts(s); len(errs) > 0 {
			rejected++
			if firstBad == "" {
				firstBad = fmt.Sprintf("%v\n%s", errs, s.Key())
			}
			if os.Getenv("YANGGEN_STRICT") != "" {
				rt.Fatalf("goyang rejects: %v\n%s", errs, s.Key())
			}
		}
	})
	keys := make([]string, 0, len(hist))
	for k := range hist {
		keys = append(keys, k)
	}
	sort.Strings(keys)
	t.Logf("schemas=%d rejected=%d avg-lines=%d", total, rejected, nodes/max(total, 1))
	for _, k := range keys {
		t.Logf("  %-34s %d", k, hist[k])
	}
	t.Logf("excluded draws: %v", excl)
	if rejected*100 > total*5 {
		t.Fatalf("goyang rejected %d of %d schemas (budget 5%%); first:\n%s", rejected, total, firstBad)
	}
	if rejected > 0 {
		t.Logf("first rejected schema:\n%s", firstBad)
	}
}

// TestYanggenDeterministic: the same rapid seed gives the same schema text (no map-order leaks).
func TestYanggenDeterministic(t *testing.T) {
	for _, o := range []Options{{Hostile: true}, {OpenConfigStyle: true, Hostile: true}} {
		var a, b []string
		for i, dst := range []*[]string{&a, &b} {
			_ = i
			g := rapid.Custom(func(rt *rapid.T) string { return Draw(rt, o).Key() })
			for seed := 0; seed < 40; seed++ {
				*dst = append(*dst, g.Example(seed))
			}
		}
		for i := range a {
			if a[i] != b[i] {
				t.Fatalf("seed %d: two draws differ:\n%s\n----\n%s", i, a[i], b[i])
			}
		}
	}
}

// TestYanggenPrint prints example schemas (YANGGEN_PRINT="<seed> [oc] [hostile] [small]"); a development aid.
func TestYanggenPrint(t *testing.T) {
	spec := os.Getenv("YANGGEN_PRINT")
	if spec == "" {
		t.Skip("set YANGGEN_PRINT")
	}
	var seed int
	fmt.Sscan(spec, &seed)
	o := Options{OpenConfigStyle: strings.Contains(spec, "oc"), Hostile: strings.Contains(spec, "hostile"), Small: strings.Contains(spec, "small")}
	s := rapid.Custom(func(rt *rapid.T) *Schema { return Draw(rt, o) }).Example(seed)
	fmt.Println(s.Key())
	fmt.Println(s.Features)
	if dir := os.Getenv("YANGGEN_DIR"); dir != "" {
		if err := s.WriteTo(dir); err != nil {
			t.Fatal(err)
		}
		fmt.Println("roots:", s.Roots)
	}
}
