package yanggen

import (
	"fmt"
	"strings"
)

type grouping struct {
	m     *mod
	name  string
	names []string // data-node identifiers the grouping contributes at its top level
	uses  int
	state bool // contains constructs only legal under config false (unused: kept false)
}

var identWords = []string{"ETHERNET", "LAG", "ospf", "bgp", "static", "AES", "sha-2", "gold", "silver", "bronze", "ipv4-unicast", "L3VPN", "vrf", "loopback"}

// shareTopLevel makes all modules use one top-level name space: with -generate_fakeroot the
// top-level nodes of all modules become fields of one struct, and ygot documents (docs/design.md)
// that equal names there are an error.
func (g *gen) shareTopLevel() {
	for _, m := range g.mods[1:] {
		m.scope.names = g.mods[0].scope.names
		m.scope.camel = g.mods[0].scope.camel
	}
}

func (g *gen) drawIdentities() {
	used := map[string]bool{}
	fresh := func(label string) string {
		w := pick(g, identWords, label)
		n := w
		for i := 2; used[sanitise(strings.ToLower(n))]; i++ {
			n = fmt.Sprintf("%s%d", w, i)
		}
		used[sanitise(strings.ToLower(n))] = true
		return n
	}
	add := func(m *mod, name string, base *identity) *identity {
		id := &identity{m: m, name: name, base: base}
		st := m.top.add("identity", name)
		if base != nil {
			st.add("base", ref(m, base.m, base.name))
			base.derived = append(base.derived, id)
		}
		m.identities = append(m.identities, id)
		m.idNames[name] = true
		return id
	}
	for mi, m := range g.mods {
		var bases []*identity
		for _, pm := range g.mods[:mi+1] {
			for _, id := range pm.identities {
				if visible(m, id.m) {
					bases = append(bases, id)
				}
			}
		}
		nb := 0
		if mi == 0 {
			nb = g.intn(0, 2, "id-bases")
		} else if g.chance(25, "id-morebase") {
			nb = 1
		}
		for b := 0; b < nb; b++ {
			base := add(m, fresh("id-basename")+"-BASE", nil)
			bases = append(bases, base)
			g.feat("identity-base")
			for d, nd := 0, g.intn(1, 3, "id-derived"); d < nd; d++ {
				id := add(m, fresh("id-name"), base)
				if g.chance(25, "id-second") {
					add(m, fresh("id-name2"), id)
					g.feat("identity-second-level")
				}
			}
		}
		if mi > 0 && len(bases) > 0 && g.chance(60, "id-cross") {
			for d, nd := 0, g.intn(1, 2, "id-crossn"); d < nd; d++ {
				b := pick(g, bases, "id-crossbase")
				add(m, fresh("id-crossname"), b)
				if b.m != m {
					g.feat("identity-cross-module")
				}
			}
		}
		if g.o.Hostile && mi > 0 {
			g.hostileIdentity(m, bases, add)
		}
	}
}

func (g *gen) drawTypedefs() {
	tdWords := []string{"percent", "label-t", "vlan-id", "mode-t", "addr-t", "key-u", "level-t", "proto-ref", "ratio", "name-t"}
	for mi, m := range g.mods {
		n := g.intn(0, 2, "td-n")
		if mi == 0 {
			n = g.intn(1, 4, "td-n0")
		}
		for i := 0; i < n; i++ {
			w := pick(g, tdWords, "td-name")
			var t *typ
			ctx := typeCtx{m: m, noRef: true}
			switch g.weighted("td-kind", 25, 20, 35) {
			case 0:
				t = g.drawEnum("td-enum")
				g.feat("typedef-enum")
			case 1: // typedef of union with an enumeration member (DESIGN 3.6)
				t = &typ{kind: "union"}
				t.members = append(t.members, g.drawEnum("td-uenum"))
				other := g.drawType(typeCtx{m: m, noRef: true, inUnion: true, depth: 1}, "td-uother")
				if baseKind(other) != "enumeration" && baseKind(other) != "union" {
					if g.chance(50, "td-uorder") {
						t.members = append(t.members, other)
					} else {
						t.members = append([]*typ{other}, t.members...)
					}
				}
				g.feat("typedef-union-enum")
				g.feat("union")
			default:
				t = g.drawType(ctx, "td-type")
			}
			// the name: new in this module; a typedef of an enumerated type (enumeration, identityref)
			// named like an enumerated typedef of another module is collision class typedef-enum-same-name
			clash := func(n string) bool {
				if k := resolved(t).kind; k != "enumeration" && k != "identityref" {
					return false
				}
				for _, om := range g.mods {
					for _, otd := range om.typedefs {
						if k := resolved(otd.t).kind; om != m && otd.name == n && (k == "enumeration" || k == "identityref") {
							return true
						}
					}
				}
				return false
			}
			name := w
			allowed := false
			for k := 2; ; k++ {
				if !m.tdNames[name] {
					if !clash(name) {
						break
					}
					if allowed || g.use(ClTypedefSameName) {
						if !allowed {
							g.hit(ClTypedefSameName)
						}
						allowed = true
						break
					}
				}
				name = fmt.Sprintf("%s%d", w, k)
			}
			m.tdNames[name] = true
			td := &typedef{m: m, name: name, t: t}
			st := m.top.add("typedef", name)
			t.render(st, m)
			if g.chance(30, "td-default") && !t.hasKind("union") {
				if d := g.defaultValue(t, m, "td-defv"); d != "" || baseKind(t) == "string" {
					if !(d == "" && (t.length != "" || t.pattern != nil)) {
						td.def = d
						st.add("default", d)
						g.feat("typedef-default")
					}
				}
			}
			m.typedefs = append(m.typedefs, td)
			g.feat("typedef")
		}
	}
}

func (g *gen) drawGroupings() {
	for _, m := range g.mods {
		n := g.intn(0, 2, "grp-n")
		for i := 0; i < n; i++ {
			name := fmt.Sprintf("%s-grp%d", pick(g, []string{"common", "timers", "ident", "stats"}, "grp-name"), i+1)
			if m.grpNames[name] {
				continue
			}
			m.grpNames[name] = true
			st := m.top.add("grouping", name)
			sc := &scope{m: m, st: st, names: map[string]bool{}, camel: map[string]bool{}, inGrp: true, config: true, depth: 1}
			saved := g.budget
			g.budget = 5
			g.drawChildren(sc, g.intn(1, 3, "grp-children"))
			g.budget = saved - 2
			gr := &grouping{m: m, name: name}
			for nm := range sc.names {
				gr.names = append(gr.names, nm)
			}
			sortStrings(gr.names)
			m.groupings = append(m.groupings, gr)
			g.feat("grouping")
		}
	}
}

func (g *gen) drawPlain() {
	g.shareTopLevel()
	g.drawIdentities()
	g.drawTypedefs()
	g.drawGroupings()
	for mi, m := range g.dataMods() {
		ntop := g.intn(1, 2, "top-n")
		if mi > 0 {
			ntop = g.intn(0, 1, "top-n2")
		}
		for i := 0; i < ntop; i++ {
			switch g.weighted("top-kind", 60, 14, 12, 14) {
			case 0:
				g.addContainer(m.scope, true)
			case 1:
				g.addList(m.scope)
				g.feat("top-level-list")
			case 2:
				g.addLeaf(m.scope, leafOpts{})
				g.feat("top-level-leaf")
			default:
				g.addLeafList(m.scope)
				g.feat("top-level-leaf-list")
			}
			m.hasData = true
		}
		if len(g.augs) > 0 && (mi > 0 || g.chance(15, "aug-self")) {
			for a, na := 0, g.intn(1, 2, "aug-n"); a < na; a++ {
				g.addAugment(m)
			}
		}
	}
	if !g.dataMods()[0].hasData {
		g.addContainer(g.dataMods()[0].scope, true)
		g.dataMods()[0].hasData = true
	}
}

// drawChildren adds up to n children to sc.
func (g *gen) drawChildren(sc *scope, n int) {
	for i := 0; i < n && g.budget > 0; i++ {
		wLeaf, wLL, wCont, wList, wChoice, wUses := 42, 10, 14, 14, 8, 10
		if sc.depth >= g.maxDep {
			wCont, wList, wChoice = 0, 0, 0
		}
		if sc.inChoice {
			wChoice, wUses = 2, 0
		}
		switch g.weighted("child-kind", wLeaf, wLL, wCont, wList, wChoice, wUses) {
		case 0:
			g.addLeaf(sc, leafOpts{})
		case 1:
			g.addLeafList(sc)
		case 2:
			g.addContainer(sc, false)
		case 3:
			g.addList(sc)
		case 4:
			g.addChoice(sc)
		default:
			if !g.addUses(sc) {
				g.addLeaf(sc, leafOpts{})
			}
		}
	}
}

type leafOpts struct {
	key  bool
	name string // forced name ("" = draw)
}

// addLeaf adds a leaf to sc and returns its name and type.
func (g *gen) addLeaf(sc *scope, o leafOpts) (string, *typ) {
	g.budget--
	name := g.leafName(sc, o)
	sc.take(name)
	st := sc.st.add("leaf", name)
	t := g.drawType(typeCtx{m: sc.m, sc: sc, key: o.key, leafNm: name}, "leaf-type")
	t.render(st, sc.m)
	if !o.key {
		switch {
		case g.chance(25, "leaf-default"):
			g.addDefault(st, t, sc.m)
		case !sc.inChoice && !sc.inAug && baseKind(t) != "empty" && g.chance(5, "leaf-mandatory"):
			st.add("mandatory", "true")
			g.feat("mandatory")
		}
	}
	if g.chance(10, "leaf-descr") {
		st.add("description", "A leaf called "+name+".")
	}
	if o.key {
		g.feat("key-type:" + baseKind(t))
	}
	g.feat("leaf")
	if !sc.inGrp && !sc.inChoice && !sc.underCh {
		g.targets = append(g.targets, target{path: append(append([]seg{}, sc.dataPath...), seg{sc.m, name}), t: t, config: sc.config})
	}
	return name, t
}

func (g *gen) addDefault(st *stmt, t *typ, m *mod) {
	if t.kind == "typedef" && t.td.def != "" && g.chance(50, "default-inherit") {
		g.feat("default-from-typedef")
		return
	}
	d := g.defaultValue(t, m, "default")
	if d == "" && !(baseKind(t) == "string" && resolved(t).length == "" && resolved(t).pattern == nil) {
		return
	}
	if t.hasKind("union") {
		// ygot refuses union defaults when wrapper unions are generated (documented in
		// gogen: "default value not supported for wrapper union"); the flag drawer must then
		// choose -generate_simple_unions. Signalled through the feature.
		g.feat("union-default")
	}
	st.add("default", d)
	g.feat("default")
	g.feat("default:" + baseKind(t))
}

func resolved(t *typ) *typ {
	for t.kind == "typedef" {
		t = t.td.t
	}
	return t
}

func (g *gen) addLeafList(sc *scope) {
	g.budget--
	name := g.nodeName(sc, "leaf-list")
	sc.take(name)
	st := sc.st.add("leaf-list", name)
	var t *typ
	for i := 0; ; i++ {
		t = g.drawType(typeCtx{m: sc.m, sc: sc}, fmt.Sprintf("ll-type%d", i))
		if !t.hasKind("empty") {
			break
		}
	}
	t.render(st, sc.m)
	if sc.config && g.chance(20, "ll-ordered") {
		st.add("ordered-by", "user")
		g.feat("leaf-list-ordered-by-user")
	}
	if g.chance(12, "ll-minmax") {
		st.add("max-elements", fmt.Sprint(g.intn(2, 8, "ll-max")))
		g.feat("min-max-elements")
	}
	g.feat("leaf-list")
	if !sc.inGrp && !sc.inChoice && !sc.underCh {
		g.targets = append(g.targets, target{path: append(append([]seg{}, sc.dataPath...), seg{sc.m, name}), t: t, config: sc.config})
	}
}

func (g *gen) addContainer(sc *scope, top bool) *scope {
	g.budget--
	name := g.nodeName(sc, "container")
	sc.take(name)
	st := sc.st.add("container", name)
	c := sc.child(st, name, sc.m)
	if g.chance(20, "cont-presence") {
		st.add("presence", "enables "+name)
		g.feat("presence")
	}
	if sc.config && !sc.inGrp && g.chance(18, "cont-state") {
		st.add("config", "false")
		c.config = false
		g.feat("config-false-subtree")
	}
	n := g.intn(1, 4, "cont-children")
	if top {
		n = g.intn(2, 5, "cont-children-top")
	}
	if g.chance(3, "cont-empty") {
		n = 0
		g.feat("container-empty")
	}
	g.drawChildren(c, n)
	g.feat("container")
	if !sc.inGrp {
		g.augs = append(g.augs, augTarget{sc: c, kind: "container"})
	}
	return c
}

func (g *gen) addList(sc *scope) {
	g.budget--
	name := g.nodeName(sc, "list")
	sc.take(name)
	st := sc.st.add("list", name)
	c := sc.child(st, name, sc.m)
	c.list = true
	c.kinfo = &keyInfo{}
	unkeyed := !sc.config && !sc.inGrp && g.chance(30, "list-unkeyed")
	if unkeyed {
		g.feat("list-unkeyed")
		g.addLeaf(c, leafOpts{})
		if g.chance(25, "unkeyed-ordered") {
			// legal on state lists too (RFC 7950 7.7.7: ignored there), and generators must cope with it
			st.add("ordered-by", "user")
			g.feat("list-unkeyed-ordered-by-user")
		}
	} else {
		keySt := st.add("key", "")
		nk := 1 + g.weighted("list-nkeys", 58, 30, 12)
		var keys []string
		kinds := map[string]bool{}
		hk := g.hostileKeys(c, name, nk)
		for i := 0; i < nk; i++ {
			o := leafOpts{key: true}
			if i < len(hk) {
				o.name = hk[i]
			}
			kn, kt := g.addLeaf(c, o)
			keys = append(keys, kn)
			kinds[baseKind(kt)] = true
		}
		keySt.arg = strings.Join(keys, " ")
		if nk > 1 {
			g.feat("list-multikey")
			if len(kinds) > 1 {
				g.feat("list-multikey-mixed")
			}
		} else {
			g.feat("list-singlekey")
		}
		if sc.config && g.chance(22, "list-ordered") {
			st.add("ordered-by", "user")
			g.feat("list-ordered-by-user")
		}
		if g.chance(10, "list-minmax") {
			st.add("min-elements", "1")
			st.add("max-elements", fmt.Sprint(g.intn(2, 16, "list-max")))
			g.feat("min-max-elements")
		}
	}
	g.drawChildren(c, g.intn(0, 3, "list-children"))
	g.feat("list")
	if sc.depth > 0 && sc.list {
		g.feat("list-nested")
	}
	if !sc.inGrp {
		g.augs = append(g.augs, augTarget{sc: c, kind: "list"})
	}
}

func (g *gen) addChoice(sc *scope) {
	g.budget--
	name := g.nodeName(sc, "choice")
	sc.take(name) // choice names live in the same identifier space as the sibling data nodes
	st := sc.st.add("choice", name)
	caseNames := map[string]bool{}
	ch := &scope{m: sc.m, st: st, names: sc.names, camel: sc.camel, dataPath: sc.dataPath, inGrp: sc.inGrp, config: sc.config,
		depth: sc.depth, inChoice: true, list: false, underCh: sc.underCh, inAug: sc.inAug, kinfo: sc.kinfo}
	if !sc.inGrp {
		ch.schPath = append(append([]seg{}, sc.schPath...), seg{sc.m, name})
	}
	nc := g.intn(2, 3, "choice-cases")
	var first string
	for i := 0; i < nc && g.budget > 0; i++ {
		if g.chance(25, "case-shorthand") {
			// shorthand: a leaf directly under the choice; its name is also the case name
			// (explicit case names end in "-case<i>", which no drawn node name does: no clash possible)
			n, _ := g.addLeaf(ch, leafOpts{})
			caseNames[n] = true
			if first == "" {
				first = n
			}
			g.feat("case-shorthand")
			continue
		}
		cn := fmt.Sprintf("%s-case%d", pick(g, []string{"a", "b", "opt"}, "case-name"), i+1)
		caseNames[cn] = true
		if first == "" {
			first = cn
		}
		cst := st.add("case", cn)
		cs := &scope{m: sc.m, st: cst, names: sc.names, camel: sc.camel, dataPath: sc.dataPath, inGrp: sc.inGrp, config: sc.config,
			depth: sc.depth, inChoice: true, underCh: sc.underCh, inAug: sc.inAug, kinfo: sc.kinfo}
		if !sc.inGrp {
			cs.schPath = append(append([]seg{}, ch.schPath...), seg{sc.m, cn})
		}
		g.drawChildren(cs, g.intn(1, 2, "case-children"))
	}
	if first != "" && g.chance(20, "choice-default") && !hasMandatory(st) {
		// the default statement must precede nothing in particular; goyang accepts any order
		st.add("default", first)
		g.feat("choice-default")
	}
	g.feat("choice")
	if !sc.inGrp {
		g.augs = append(g.augs, augTarget{sc: ch, kind: "choice"})
	}
}

func hasMandatory(st *stmt) bool {
	if st.kw == "mandatory" {
		return true
	}
	for _, c := range st.subs {
		if hasMandatory(c) {
			return true
		}
	}
	return false
}

func (g *gen) addUses(sc *scope) bool {
	var cands []*grouping
	for _, m := range g.mods {
		if !visible(sc.m, m) {
			continue
		}
	next:
		for _, gr := range m.groupings {
			if sc.inGrp && sc.st.kw == "grouping" && sc.st.arg == gr.name && gr.m == sc.m {
				continue
			}
			if len(gr.names) == 0 {
				continue
			}
			for _, n := range gr.names {
				if !sc.free(n) {
					continue next
				}
			}
			cands = append(cands, gr)
		}
	}
	if len(cands) == 0 {
		return false
	}
	gr := pick(g, cands, "uses-grp")
	for _, n := range gr.names {
		sc.take(n)
	}
	sc.st.add("uses", ref(sc.m, gr.m, gr.name))
	gr.uses++
	g.budget -= len(gr.names)
	g.feat("uses")
	if gr.m != sc.m {
		g.feat("uses-cross-module")
	}
	if gr.uses == 2 {
		g.feat("grouping-reuse")
	}
	return true
}

func (g *gen) addAugment(m *mod) {
	var cands []augTarget
	for _, a := range g.augs {
		ok := len(a.sc.schPath) > 0
		for _, s := range a.sc.schPath {
			if !visible(m, s.m) {
				ok = false
			}
		}
		if ok {
			cands = append(cands, a)
		}
	}
	if len(cands) == 0 || g.budget <= 0 {
		return
	}
	a := pick(g, cands, "aug-target")
	var p strings.Builder
	for _, s := range a.sc.schPath {
		p.WriteString("/" + s.m.prefix + ":" + s.name)
	}
	st := m.top.add("augment", p.String())
	sc := &scope{m: m, st: st, names: a.sc.names, camel: a.sc.camel, dataPath: a.sc.dataPath, schPath: a.sc.schPath,
		config: a.sc.config, depth: a.sc.depth, list: a.sc.list, underCh: a.sc.underCh, inChoice: a.sc.inChoice, inAug: true, kinfo: a.sc.kinfo}
	saved := len(g.augs)
	if a.kind == "choice" {
		cn := fmt.Sprintf("aug-case-%s-%d", m.prefix, len(m.top.subs))
		cst := st.add("case", cn)
		sc.st = cst
		sc.inChoice = true
		sc.schPath = append(append([]seg{}, a.sc.schPath...), seg{m, cn})
		g.feat("augment-choice")
	}
	// one augment in three adds a leaf "aug-mode" with an inline enumeration of its own: a module that
	// augments several targets then defines same-named leaves whose enumerations differ
	if sc.free("aug-mode") && g.chance(35, "aug-mode") {
		g.budget--
		sc.take("aug-mode")
		lst := sc.st.add("leaf", "aug-mode")
		g.drawEnum("aug-mode-enum").render(lst, sc.m)
		g.feat("augment-same-named-enum-leaf")
	}
	g.drawChildren(sc, g.intn(1, 3, "aug-children"))
	_ = saved
	if len(sc.st.subs) == 0 {
		g.addLeaf(sc, leafOpts{})
	}
	m.hasData = true
	g.feat("augment")
	if a.sc.schPath[0].m != m {
		g.feat("augment-cross-module")
	}
	if a.kind == "list" {
		g.feat("augment-list")
	}
}

// drawLeafref draws a leafref to an already generated leaf or leaf-list (nil when none fits).
func (g *gen) drawLeafref(ctx typeCtx, label string) *typ {
	sc := ctx.sc
	var cands []target
	for _, tg := range g.targets {
		if sc.config && !tg.config {
			continue // a config leafref must not point at state
		}
		if ctx.key && !tg.t.isKeyable() {
			continue
		}
		if baseKind(tg.t) == "empty" {
			continue
		}
		ok := true
		for _, s := range tg.path {
			if !visible(ctx.m, s.m) {
				ok = false
			}
		}
		if ok {
			cands = append(cands, tg)
		}
	}
	if len(cands) == 0 {
		return nil
	}
	// one time in three the reference stays inside its own container or list entry (a leaf and a leafref to it
	// side by side then share one Go type, which matters when that type is a union or an enumeration)
	if g.chance(35, label+"-lrsibling") {
		var sib, enumerated []target
		for _, c := range cands {
			if len(c.path) != len(sc.dataPath)+1 {
				continue
			}
			same := true
			for i := range sc.dataPath {
				if sc.dataPath[i] != c.path[i] {
					same = false
				}
			}
			if !same {
				continue
			}
			sib = append(sib, c)
			if c.t.hasKind("enumeration") || c.t.hasKind("identityref") {
				enumerated = append(enumerated, c)
			}
		}
		switch {
		case len(enumerated) > 0 && g.chance(60, label+"-lrsibenum"):
			cands = enumerated
			g.feat("leafref-to-enumerated-sibling")
		case len(sib) > 0:
			cands = sib
			g.feat("leafref-to-sibling")
		}
	}
	tg := pick(g, cands, label+"-lrtarget")
	withPfx := g.chance(50, label+"-lrpfx")
	segText := func(s seg) string {
		if s.m != ctx.m || withPfx {
			return s.m.prefix + ":" + s.name
		}
		return s.name
	}
	var p strings.Builder
	// a relative path is possible when both are below the same top-level node
	common := 0
	for common < len(sc.dataPath) && common < len(tg.path)-1 && sc.dataPath[common] == tg.path[common] {
		common++
	}
	if common > 0 && g.chance(60, label+"-lrrel") {
		for i := 0; i < len(sc.dataPath)-common+1; i++ {
			p.WriteString("../")
		}
		var parts []string
		for _, s := range tg.path[common:] {
			parts = append(parts, segText(s))
		}
		p.WriteString(strings.Join(parts, "/"))
		g.feat("leafref-relative")
	} else {
		for _, s := range tg.path {
			p.WriteString("/" + segText(s))
		}
		g.feat("leafref-absolute")
	}
	g.feat("leafref")
	if baseKind(tg.t) == "leafref" {
		g.feat("leafref-chain")
	}
	return &typ{kind: "leafref", path: p.String(), target: tg.t}
}

func sortStrings(s []string) {
	for i := 1; i < len(s); i++ {
		for j := i; j > 0 && s[j] < s[j-1]; j-- {
			s[j], s[j-1] = s[j-1], s[j]
		}
	}
}
