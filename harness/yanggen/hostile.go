package yanggen

import (
	"sort"
	"strings"
)

// Collision classes (Options.Excluded keys, Schema.Features labels are "collision:<class>").
//
//	camelcase-siblings   two siblings whose names are equal after CamelCase (leaf-one / leaf-One / leafOne)
//	dash-underscore      two siblings differing only in '-', '_' or '.' (a-b / a_b / a.b)
//	go-keyword           a node named like a Go keyword or predeclared identifier
//	method-validate      a node named validate / Validate / populate-defaults (generated methods Validate, PopulateDefaults)
//	method-accessor      a node whose CamelCase name equals a generated accessor of a sibling (get-x, new-x, append-x, delete-x, rename-x, get-or-create-x, set-x)
//	helper-name          a node named like another generated helper / type (key, string, goStruct, is-yang-go-struct, binary, union, ...)
//	digits-dots          legal identifiers with digits, dots, leading underscore, trailing separators
//	enum-sanitise-clash  enum members equal after sanitising (a-b / a_b / a.b)
//	enum-UNSET           an enum member called UNSET
//	enum-case-clash      enum members differing only in letter case (up / UP) - distinct Go constants, legal
//	identity-same-name   identities with the same local name in two modules under one base
//	identity-sanitise-clash  identities under one base equal after sanitising (a-b / a_b)
//	key-Key              list keys key + Key
//	key-list-name        a list key named like the list
//	key-camelcase        two keys of one list equal after CamelCase
//	list-child-key       a container called key inside a multi-key list (struct <List>_Key)
const (
	ClCamelSiblings  = "camelcase-siblings"
	ClDashUnderscore = "dash-underscore"
	ClGoKeyword      = "go-keyword"
	ClMethodValidate = "method-validate"
	ClMethodAccessor = "method-accessor"
	ClHelperName     = "helper-name"
	ClDigitsDots     = "digits-dots"
	ClEnumSanitise   = "enum-sanitise-clash"
	ClEnumUNSET      = "enum-UNSET"
	ClEnumCase       = "enum-case-clash"
	ClIdentSameName  = "identity-same-name"
	ClIdentSanitise  = "identity-sanitise-clash"
	ClKeyKey         = "key-Key"
	ClKeyListName    = "key-list-name"
	ClKeyCamel       = "key-camelcase"
	ClListChildKey   = "list-child-key"
)

// AllClasses lists every collision class, sorted.
func AllClasses() []string {
	cs := []string{ClCamelSiblings, ClDashUnderscore, ClGoKeyword, ClMethodValidate, ClMethodAccessor, ClHelperName, ClDigitsDots,
		ClEnumSanitise, ClEnumUNSET, ClEnumCase, ClIdentSameName, ClIdentSanitise, ClKeyKey, ClKeyListName, ClKeyCamel, ClListChildKey}
	sort.Strings(cs)
	return cs
}

var goWords = []string{"type", "func", "range", "map", "chan", "select", "go", "defer", "interface", "struct", "string", "int",
	"bool", "error", "nil", "true", "false", "len", "new", "make", "append", "uint8", "float64", "byte", "any", "iota", "init",
	"main", "package", "import", "var", "const", "return", "switch", "default", "break", "continue", "fallthrough", "goto", "for", "if", "else", "case"}

var helperWords = []string{"key", "Key", "string", "String", "goStruct", "is-yang-go-struct", "unmarshal",
	"schema", "schema-tree", "unzip-schema", "enum-type-map", "belonging-module", "list-key-map", "binary", "yang-empty",
	"union", "ordered-map", "keys", "values", "len", "get", "append-new", "e", "x"}

var oddWords = []string{"a.b", "x1.2", "v4.x", "a-1", "_x", "a..b", "A.", "x-", "r2-d2", "_", "__a", "a1", "x_1", "B2B", "ipv4.", "a-.b"}

// use decides whether class cl is drawn now: an excluded class is counted, not drawn.
func (g *gen) use(cl string) bool {
	if g.o.Excluded[cl] {
		g.s.ExcludedDraws[cl]++
		return false
	}
	return true
}

func (g *gen) hit(cl string) { g.feat("collision:" + cl) }

// nodeName draws the name of a new data node (or choice) in sc.
func (g *gen) nodeName(sc *scope, kind string) string {
	if !g.o.Hostile || !g.chance(28, "hostile-name") {
		return g.freshName(sc, kind+"-name")
	}
	existing := make([]string, 0, len(sc.names))
	for n := range sc.names {
		existing = append(existing, n)
	}
	sort.Strings(existing)
	try := func(cl, n string) string {
		if n == "" || sc.names[n] || reservedOC(n) {
			return ""
		}
		if !g.use(cl) {
			return ""
		}
		g.hit(cl)
		return n
	}
	var n string
	switch g.weighted("hostile-class", 18, 12, 16, 6, 12, 14, 16, 6) {
	case 0:
		if len(existing) > 0 {
			n = try(ClCamelSiblings, camelVariant(pick(g, existing, "hostile-sib"), g.intn(0, 2, "hostile-variant")))
		}
	case 1:
		if len(existing) > 0 {
			n = try(ClDashUnderscore, dashVariant(pick(g, existing, "hostile-sib"), g.intn(0, 1, "hostile-variant")))
		}
	case 2:
		w := pick(g, goWords, "hostile-goword")
		if sc.free(w) {
			n = try(ClGoKeyword, w)
		}
	case 3:
		w := pick(g, []string{"validate", "Validate", "populate-defaults"}, "hostile-validate")
		if sc.free(w) {
			n = try(ClMethodValidate, w)
		}
	case 4:
		if len(existing) > 0 {
			w := pick(g, []string{"get-", "new-", "append-", "delete-", "rename-", "get-or-create-", "set-"}, "hostile-acc") + pick(g, existing, "hostile-sib")
			if sc.free(w) {
				n = try(ClMethodAccessor, w)
			}
		}
	case 5:
		w := pick(g, helperWords, "hostile-helper")
		if sc.free(w) {
			n = try(ClHelperName, w)
		}
	case 6:
		w := pick(g, oddWords, "hostile-odd")
		if sc.free(w) {
			n = try(ClDigitsDots, w)
		}
	case 7:
		if sc.list && kind == "container" && strings.Contains(keyArg(sc), " ") && sc.free("key") {
			n = try(ClListChildKey, "key")
		}
	}
	if n == "" {
		return g.freshName(sc, kind+"-name")
	}
	return n
}

func keyArg(sc *scope) string {
	if k := sc.st.find("key"); k != nil {
		return k.arg
	}
	return ""
}

// camelVariant returns a different identifier with the same CamelCase form ("" if none).
func camelVariant(s string, how int) string {
	var out string
	switch how {
	case 0: // leaf-one -> leaf-One
		if i := strings.IndexAny(s, "-_."); i >= 0 && i+1 < len(s) && s[i+1] >= 'a' && s[i+1] <= 'z' {
			out = s[:i+1] + strings.ToUpper(s[i+1:i+2]) + s[i+2:]
		}
	case 1: // leaf-one -> leafOne
		if i := strings.IndexAny(s, "-_."); i > 0 && i+1 < len(s) && s[i+1] >= 'a' && s[i+1] <= 'z' {
			out = s[:i] + strings.ToUpper(s[i+1:i+2]) + s[i+2:]
		}
	default: // name -> Name
		if s[0] >= 'a' && s[0] <= 'z' {
			out = strings.ToUpper(s[:1]) + s[1:]
		}
	}
	if out == "" || out == s || camelCase(out) != camelCase(s) {
		return ""
	}
	return out
}

// dashVariant swaps the first separator for another one.
func dashVariant(s string, how int) string {
	i := strings.IndexAny(s, "-_.")
	if i <= 0 {
		return ""
	}
	repl := map[byte][]string{'-': {"_", "."}, '_': {"-", "."}, '.': {"-", "_"}}[s[i]][how]
	return s[:i] + repl + s[i+1:]
}

// hostileKeys may force the names of the first keys of a list.
func (g *gen) hostileKeys(c *scope, listName string, nk int) []string {
	if !g.o.Hostile || !g.chance(22, "hostile-keys") {
		return nil
	}
	switch g.weighted("hostile-keyclass", 30, 35, 35) {
	case 0:
		if nk >= 2 && g.use(ClKeyKey) {
			g.hit(ClKeyKey)
			return []string{"key", "Key"}
		}
	case 1:
		if !reservedOC(listName) && g.use(ClKeyListName) {
			g.hit(ClKeyListName)
			return []string{listName}
		}
	default:
		if nk >= 2 && g.use(ClKeyCamel) {
			g.hit(ClKeyCamel)
			return pick(g, [][]string{{"a-b", "a_b"}, {"if-name", "if-Name"}, {"vlanId", "vlan-id"}}, "hostile-keypair")
		}
	}
	return nil
}

// hostileEnum may add hostile members to an enumeration that is being drawn.
func (g *gen) hostileEnum(t *typ, add func(string), seen map[string]bool, label string) {
	if !g.chance(25, label+"-hostile") {
		return
	}
	force := func(name string) {
		if seen[name] {
			return
		}
		seen[name] = true
		next := 0
		if n := len(t.enums); n > 0 {
			next = t.enums[n-1].value + 1
		}
		t.enums = append(t.enums, enumMember{name: name, value: next, explicit: next <= 0 && len(t.enums) > 0})
	}
	switch g.weighted(label+"-hostileclass", 35, 30, 35) {
	case 0:
		if g.use(ClEnumSanitise) {
			p := pick(g, [][]string{{"a-b", "a_b"}, {"x.y", "x-y"}, {"p q", "p_q"}, {"r/s", "r.s"}}, label+"-sanpair")
			force(p[0])
			force(p[1])
			g.hit(ClEnumSanitise)
		}
	case 1:
		if g.use(ClEnumUNSET) {
			force("UNSET")
			g.hit(ClEnumUNSET)
		}
	default:
		if g.use(ClEnumCase) {
			force("up")
			force("UP")
			force("Up")
			g.hit(ClEnumCase)
		}
	}
}

// hostileIdentity may add identities that clash with identities of earlier modules.
func (g *gen) hostileIdentity(m *mod, bases []*identity, add func(*mod, string, *identity) *identity) {
	if !g.chance(30, "hostile-ident") {
		return
	}
	// candidates: derived identities of other modules
	var others []*identity
	for _, b := range bases {
		if b.base != nil && b.m != m {
			others = append(others, b)
		}
	}
	if len(others) == 0 {
		return
	}
	o := pick(g, others, "hostile-identof")
	root := o.base
	switch g.weighted("hostile-identclass", 55, 45) {
	case 0:
		if !m.idNames[o.name] && g.use(ClIdentSameName) {
			add(m, o.name, root)
			g.hit(ClIdentSameName)
		}
	default:
		v := dashVariant(o.name, 0)
		if v == "" {
			v = o.name + "-x"
			if !m.idNames[v] && !m.idNames[o.name+"_x"] && g.use(ClIdentSanitise) {
				add(m, v, root)
				add(m, o.name+"_x", root)
				g.hit(ClIdentSanitise)
			}
			return
		}
		if !m.idNames[v] && g.use(ClIdentSanitise) {
			add(m, v, root)
			g.hit(ClIdentSanitise)
		}
	}
}
