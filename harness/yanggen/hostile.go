package yanggen

import (
	"sort"
	"strings"
)

// Collision classes (Options.Excluded keys, Schema.Features labels are "collision:<class>").
//
//	camelcase-siblings   two siblings whose names are equal after CamelCase (leaf-one / leaf-One / leafOne)
//	dash-underscore      two siblings differing only in '-', '_' or '.' (a-b / a_b / a.b)
//	go-keyword           a node named like a Go keyword or predeclared identifier
//	method-validate      a node named validate / Validate / populate-defaults (generated methods Validate, PopulateDefaults)
//	method-accessor      a node whose CamelCase name equals a generated accessor of a sibling (get-x, new-x, append-x, delete-x, rename-x, get-or-create-x, set-x)
//	method-annotation    a node named belonging-module, enum-type-map or list-key-map: with -annotations its annotation
//	                     field Λ<Name> has the name of a generated method (ΛBelongingModule, ΛEnumTypeMap, ΛListKeyMap)
//	helper-name          a node named like another generated helper / type (key, string, goStruct, is-yang-go-struct, binary, union, ...)
//	digits-dots          legal identifiers with digits, dots, leading underscore, trailing separators
//	enum-sanitise-clash  enum members equal after sanitising (a-b / a_b / a.b)
//	enum-UNSET           an enum member called UNSET
//	enum-case-clash      enum members differing only in letter case (up / UP) - distinct Go constants, legal
//	identity-same-name   identities with the same local name in two modules under one base
//	identity-sanitise-clash  identities under one base equal after sanitising (a-b / a_b)
//	key-Key              list keys key + Key (in this order: a member of key-camelcase-misorder, kept as the fixed pair of F25d)
//	key-list-name        a list key named like the list
//	key-camelcase        two keys of one list equal after CamelCase, in an order that generated code handles (a-b a_b, Key key)
//	key-camelcase-misorder  a list key shares its CamelCase name with another node of the list entry's name space (another
//	                     key, a sibling, in OpenConfig style a config/state leaf or a child element) and its alphabetical
//	                     position inside the clashing group differs from its position among the clashing keys in the key
//	                     statement (key "key Key"; key policy next to a leaf Policy) - see keyMisorder
//	list-child-key       a container called key inside a multi-key list (struct <List>_Key)
//	key-struct-name      a list key whose CamelCase name is the Go name of the list entry struct: a top-level
//	                     OpenConfig-style list (under -compress_paths /mtus/mtu becomes struct Mtu) with a key mtu
//	top-level-helper-name  a top-level node of an OpenConfig-style module whose CamelCase name is a package-level
//	                     identifier of the generated code (schema, schema-tree, unzip-schema, unmarshal): under
//	                     -compress_paths its struct has that bare name
//	typedef-enum-same-name  two modules each define a typedef of an enumerated type (enumeration or identityref, directly
//	                     or through a typedef chain) under the same name; not a hostile identifier: drawn in every mode
const (
	ClCamelSiblings    = "camelcase-siblings"
	ClDashUnderscore   = "dash-underscore"
	ClGoKeyword        = "go-keyword"
	ClMethodValidate   = "method-validate"
	ClMethodAccessor   = "method-accessor"
	ClHelperName       = "helper-name"
	ClDigitsDots       = "digits-dots"
	ClEnumSanitise     = "enum-sanitise-clash"
	ClEnumUNSET        = "enum-UNSET"
	ClEnumCase         = "enum-case-clash"
	ClIdentSameName    = "identity-same-name"
	ClIdentSanitise    = "identity-sanitise-clash"
	ClKeyKey           = "key-Key"
	ClKeyListName      = "key-list-name"
	ClKeyCamel         = "key-camelcase"
	ClKeyOrder         = "key-camelcase-misorder"
	ClListChildKey     = "list-child-key"
	ClKeyStructName    = "key-struct-name"
	ClTopHelper        = "top-level-helper-name"
	ClTypedefSameName  = "typedef-enum-same-name"
	ClMethodAnnotation = "method-annotation"
)

// lambdaWords: helper words whose annotation field (Λ + CamelCase name) is a generated method name.
var lambdaWords = map[string]bool{"belonging-module": true, "enum-type-map": true, "list-key-map": true}

// packageHelpers: CamelCase names of package-level functions / variables of every generated Go package.
var packageHelpers = map[string]bool{"Schema": true, "SchemaTree": true, "UnzipSchema": true, "Unmarshal": true}

// AllClasses lists every collision class, sorted.
func AllClasses() []string {
	cs := []string{ClCamelSiblings, ClDashUnderscore, ClGoKeyword, ClMethodValidate, ClMethodAccessor, ClHelperName, ClDigitsDots,
		ClEnumSanitise, ClEnumUNSET, ClEnumCase, ClIdentSameName, ClIdentSanitise, ClKeyKey, ClKeyListName, ClKeyCamel, ClKeyOrder, ClListChildKey, ClKeyStructName, ClTopHelper, ClTypedefSameName, ClMethodAnnotation}
	sort.Strings(cs)
	return cs
}

var goWords = []string{"type", "func", "range", "map", "chan", "select", "go", "defer", "interface", "struct", "string", "int",
	"bool", "error", "nil", "true", "false", "len", "new", "make", "append", "uint8", "float64", "byte", "any", "iota", "init",
	"main", "package", "import", "var", "const", "return", "switch", "default", "break", "continue", "fallthrough", "goto", "for", "if", "else", "case"}

var helperWords = []string{"key", "Key", "string", "String", "goStruct", "is-yang-go-struct", "unmarshal",
	"schema", "schema-tree", "unzip-schema", "enum-type-map", "belonging-module", "list-key-map", "binary", "yang-empty",
	"union", "ordered-map", "keys", "values", "len", "get", "append-new", "e", "x"}

var oddWords = []string{"a.b", "x1.2", "v4.x", "a-1", "_x", "a..b", "A.", "x-", "r2-d2", "_", "__a", "a1", "x_1", "B2B", "ipv4.", "a-.b"}

// use decides whether class cl is drawn now: an excluded class is counted, not drawn.
func (g *gen) use(cl string) bool {
	if g.o.Excluded[cl] {
		g.s.ExcludedDraws[cl]++
		return false
	}
	return true
}

func (g *gen) hit(cl string) { g.feat("collision:" + cl) }

// nodeName draws the name of a new data node (or choice) in sc.
func (g *gen) nodeName(sc *scope, kind string) string {
	if !g.o.Hostile || !g.chance(28, "hostile-name") {
		return g.freshName(sc, kind+"-name")
	}
	existing := make([]string, 0, len(sc.names))
	for n := range sc.names {
		existing = append(existing, n)
	}
	sort.Strings(existing)
	try := func(cl, n string) string {
		if n == "" || sc.names[n] || reservedOC(n) {
			return ""
		}
		if !g.use(cl) {
			return ""
		}
		if sc.ocTop && kind != "leaf" && kind != "leaf-list" && packageHelpers[camelCase(n)] {
			if !g.use(ClTopHelper) {
				return ""
			}
			g.hit(ClTopHelper)
		}
		if sc.kinfo != nil && sc.kinfo.misorderWith(sc.names, n, sc.kinfo.nextIsKey) {
			if !g.use(ClKeyOrder) {
				return ""
			}
			g.hit(ClKeyOrder)
		}
		g.hit(cl)
		return n
	}
	var n string
	switch g.weighted("hostile-class", 18, 12, 16, 6, 12, 14, 16, 6) {
	case 0:
		if len(existing) > 0 {
			n = try(ClCamelSiblings, camelVariant(pick(g, existing, "hostile-sib"), g.intn(0, 2, "hostile-variant")))
		}
	case 1:
		if len(existing) > 0 {
			n = try(ClDashUnderscore, dashVariant(pick(g, existing, "hostile-sib"), g.intn(0, 1, "hostile-variant")))
		}
	case 2:
		w := pick(g, goWords, "hostile-goword")
		if sc.free(w) {
			n = try(ClGoKeyword, w)
		}
	case 3:
		w := pick(g, []string{"validate", "Validate", "populate-defaults"}, "hostile-validate")
		if sc.free(w) {
			n = try(ClMethodValidate, w)
		}
	case 4:
		if len(existing) > 0 {
			w := pick(g, []string{"get-", "new-", "append-", "delete-", "rename-", "get-or-create-", "set-"}, "hostile-acc") + pick(g, existing, "hostile-sib")
			if sc.free(w) {
				n = try(ClMethodAccessor, w)
			}
		}
	case 5:
		w := pick(g, helperWords, "hostile-helper")
		if sc.free(w) {
			if lambdaWords[w] {
				n = try(ClMethodAnnotation, w)
			} else {
				n = try(ClHelperName, w)
			}
		}
	case 6:
		w := pick(g, oddWords, "hostile-odd")
		if sc.free(w) {
			n = try(ClDigitsDots, w)
		}
	case 7:
		if sc.list && kind == "container" && strings.Contains(keyArg(sc), " ") && sc.free("key") {
			n = try(ClListChildKey, "key")
		}
	}
	if n == "" {
		return g.freshName(sc, kind+"-name")
	}
	return n
}

func keyArg(sc *scope) string {
	if k := sc.st.find("key"); k != nil {
		return k.arg
	}
	return ""
}

// camelVariant returns a different identifier with the same CamelCase form ("" if none).
func camelVariant(s string, how int) string {
	var out string
	switch how {
	case 0: // leaf-one -> leaf-One
		if i := strings.IndexAny(s, "-_."); i >= 0 && i+1 < len(s) && s[i+1] >= 'a' && s[i+1] <= 'z' {
			out = s[:i+1] + strings.ToUpper(s[i+1:i+2]) + s[i+2:]
		}
	case 1: // leaf-one -> leafOne
		if i := strings.IndexAny(s, "-_."); i > 0 && i+1 < len(s) && s[i+1] >= 'a' && s[i+1] <= 'z' {
			out = s[:i] + strings.ToUpper(s[i+1:i+2]) + s[i+2:]
		}
	default: // name -> Name
		if s[0] >= 'a' && s[0] <= 'z' {
			out = strings.ToUpper(s[:1]) + s[1:]
		}
	}
	if out == "" || out == s || camelCase(out) != camelCase(s) {
		return ""
	}
	return out
}

// dashVariant swaps the first separator for another one.
func dashVariant(s string, how int) string {
	i := strings.IndexAny(s, "-_.")
	if i <= 0 {
		return ""
	}
	repl := map[byte][]string{'-': {"_", "."}, '_': {"-", "."}, '.': {"-", "_"}}[s[i]][how]
	return s[:i] + repl + s[i+1:]
}

// hostileKeys may force the names of the first keys of a list.
func (g *gen) hostileKeys(c *scope, listName string, nk int) []string {
	if !g.o.Hostile || !g.chance(22, "hostile-keys") {
		return nil
	}
	// ordered returns the pair as drawn when that order is harmless or the misorder class may be
	// drawn, and the harmless (alphabetical) order otherwise.
	ordered := func(p []string) []string {
		if keyMisorder(p, p) {
			if g.use(ClKeyOrder) {
				g.hit(ClKeyOrder)
				return p
			}
			return []string{p[1], p[0]}
		}
		return p
	}
	switch g.weighted("hostile-keyclass", 30, 35, 35) {
	case 0:
		if nk >= 2 {
			if g.use(ClKeyKey) && g.use(ClKeyOrder) {
				g.hit(ClKeyKey)
				g.hit(ClKeyOrder)
				return []string{"key", "Key"}
			}
			if g.use(ClKeyCamel) {
				g.hit(ClKeyCamel)
				return []string{"Key", "key"}
			}
		}
	case 1:
		if c.kinfo != nil && c.kinfo.structCamel == camelCase(listName) && !g.use(ClKeyStructName) {
			return nil
		}
		if !reservedOC(listName) && g.use(ClKeyListName) {
			g.hit(ClKeyListName) // (key-struct-name is labelled by leafName)
			return []string{listName}
		}
	default:
		if nk >= 2 && g.use(ClKeyCamel) {
			g.hit(ClKeyCamel)
			p := pick(g, [][]string{{"a-b", "a_b"}, {"vlanId", "vlan-id"}, {"a_b", "a-b"}, {"vlan-id", "vlanId"}, {"x.y", "x_y"}}, "hostile-keypair")
			return ordered(append([]string{}, p...))
		}
	}
	return nil
}

// keyInfo is the key bookkeeping of one list entry's name space.
type keyInfo struct {
	keys        []string // key leaves in key-statement order, as far as drawn
	nextIsKey   bool     // the name being drawn is that of the next key
	structCamel string   // Go name of the entry struct when a key can reach it (top-level OpenConfig-style list under compression), else ""
}

// misorderWith: would adding n (as the next key when asKey) to the name space put a key out of order?
func (k *keyInfo) misorderWith(names map[string]bool, n string, asKey bool) bool {
	all := make([]string, 0, len(names)+1)
	for x := range names {
		all = append(all, x)
	}
	if !names[n] {
		all = append(all, n)
	}
	keys := k.keys
	if asKey {
		keys = append(append([]string{}, keys...), n)
	}
	return keyMisorder(all, keys)
}

// keyMisorder is the trigger of finding F25d stated on the schema: names are the YANG identifiers of
// one list entry's name space (every node that can become a field of the entry struct), keys the
// list's keys in key-statement order. Generated code names the fields of the entry struct by making
// CamelCase names unique in alphabetical order of the YANG names, and the members of the key struct /
// the parameters of the list helpers by making them unique among the keys in key-statement order.
// The class is: the two namings disagree for some key.
func keyMisorder(names, keys []string) bool {
	sorted := append([]string{}, names...)
	sort.Strings(sorted)
	uniq := func(n string, used map[string]bool) string {
		for used[n] {
			n += "_"
		}
		used[n] = true
		return n
	}
	field := map[string]string{}
	used := map[string]bool{}
	for _, n := range sorted {
		if _, dup := field[n]; !dup {
			field[n] = uniq(camelCase(n), used)
		}
	}
	usedK := map[string]bool{}
	for _, k := range keys {
		if uniq(camelCase(k), usedK) != field[k] {
			return true
		}
	}
	return false
}

// leafName draws (or takes the forced) name of a leaf and keeps the key bookkeeping of the list.
func (g *gen) leafName(sc *scope, o leafOpts) string {
	name := o.name
	if name == "" {
		if sc.kinfo != nil {
			sc.kinfo.nextIsKey = o.key
		}
		name = g.nodeName(sc, "leaf")
		if sc.kinfo != nil {
			sc.kinfo.nextIsKey = false
		}
	}
	if o.key && sc.kinfo != nil {
		if sn := sc.kinfo.structCamel; sn != "" && camelCase(name) == sn {
			if g.use(ClKeyStructName) {
				g.hit(ClKeyStructName)
			} else {
				// an ordinary name with another CamelCase form
				had := sc.camel[sn]
				sc.camel[sn] = true
				name = g.freshName(sc, "leaf-name-nostruct")
				if !had {
					delete(sc.camel, sn)
				}
			}
		}
		sc.kinfo.keys = append(sc.kinfo.keys, name)
	}
	return name
}

// hostileEnum may add hostile members to an enumeration that is being drawn.
func (g *gen) hostileEnum(t *typ, add func(string), seen map[string]bool, label string) {
	if !g.chance(25, label+"-hostile") {
		return
	}
	force := func(name string) {
		if seen[name] {
			return
		}
		seen[name] = true
		next := 0
		if n := len(t.enums); n > 0 {
			next = t.enums[n-1].value + 1
		}
		t.enums = append(t.enums, enumMember{name: name, value: next, explicit: next <= 0 && len(t.enums) > 0})
	}
	switch g.weighted(label+"-hostileclass", 35, 30, 35) {
	case 0:
		if g.use(ClEnumSanitise) {
			p := pick(g, [][]string{{"a-b", "a_b"}, {"x.y", "x-y"}, {"p q", "p_q"}, {"r/s", "r.s"}}, label+"-sanpair")
			force(p[0])
			force(p[1])
			g.hit(ClEnumSanitise)
		}
	case 1:
		if g.use(ClEnumUNSET) {
			force("UNSET")
			g.hit(ClEnumUNSET)
		}
	default:
		if g.use(ClEnumCase) {
			force("up")
			force("UP")
			force("Up")
			g.hit(ClEnumCase)
		}
	}
}

// hostileIdentity may add identities that clash with identities of earlier modules.
func (g *gen) hostileIdentity(m *mod, bases []*identity, add func(*mod, string, *identity) *identity) {
	if !g.chance(30, "hostile-ident") {
		return
	}
	// candidates: derived identities of other modules
	var others []*identity
	for _, b := range bases {
		if b.base != nil && b.m != m {
			others = append(others, b)
		}
	}
	if len(others) == 0 {
		return
	}
	o := pick(g, others, "hostile-identof")
	root := o.base
	switch g.weighted("hostile-identclass", 55, 45) {
	case 0:
		if !m.idNames[o.name] && g.use(ClIdentSameName) {
			add(m, o.name, root)
			g.hit(ClIdentSameName)
		}
	default:
		v := dashVariant(o.name, 0)
		if v == "" {
			v = o.name + "-x"
			if !m.idNames[v] && !m.idNames[o.name+"_x"] && g.use(ClIdentSanitise) {
				add(m, v, root)
				add(m, o.name+"_x", root)
				g.hit(ClIdentSanitise)
			}
			return
		}
		if !m.idNames[v] && g.use(ClIdentSanitise) {
			add(m, v, root)
			g.hit(ClIdentSanitise)
		}
	}
}
