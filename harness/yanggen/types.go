package yanggen

import (
	"fmt"
	"strings"
)

// typ is a drawn YANG type together with enough knowledge to produce a valid default value and to
// decide whether it may be a list key.
type typ struct {
	kind    string // int8..uint64, string, boolean, decimal64, enumeration, identityref, union, leafref, empty, binary, typedef
	lo, hi  int64  // integer range (when ranged)
	ranged  bool
	rng     string // textual range for decimal64
	decDef  string // an in-range decimal value
	fd      int
	length  string
	pattern *patEx
	enums   []enumMember
	base    *identity
	members []*typ
	path    string // leafref
	target  *typ   // leafref target type (for key suitability)
	td      *typedef
}

type enumMember struct {
	name     string
	value    int
	explicit bool
}

type patEx struct {
	pat      string
	examples []string // values matching the pattern
}

type typedef struct {
	m    *mod
	name string
	t    *typ
	def  string
}

type identity struct {
	m       *mod
	name    string
	base    *identity
	derived []*identity // transitive closure is computed on demand
}

func (id *identity) allDerived() []*identity {
	var out []*identity
	for _, d := range id.derived {
		out = append(out, d)
		out = append(out, d.allDerived()...)
	}
	return out
}

var intKinds = []string{"int8", "int16", "int32", "int64", "uint8", "uint16", "uint32", "uint64"}

var intBounds = map[string][2]int64{
	"int8": {-128, 127}, "int16": {-32768, 32767}, "int32": {-2147483648, 2147483647}, "int64": {-9223372036854775807, 9223372036854775807},
	"uint8": {0, 255}, "uint16": {0, 65535}, "uint32": {0, 4294967295}, "uint64": {0, 9223372036854775807},
}

var patterns = []*patEx{
	{`[a-z]+`, []string{"abc", "x", "hello"}},
	{`[0-9]{1,3}(\.[0-9]{1,3}){3}`, []string{"10.0.0.1", "192.168.1.20"}},
	{`[A-Z][a-z0-9-]*`, []string{"Ab-1", "Z"}},
	{`(up|down)(-[0-9]+)?`, []string{"up", "down-12"}},
	{`\d+:\d+`, []string{"65000:100", "1:2"}},
	{`.*[a-f]$`, []string{"xa", "f"}}, // an unanchored-looking pattern with a trailing $
}

// isKeyable: may be used as the type of a list key (ygot documents binary/empty keys as unsupported).
func (t *typ) isKeyable() bool {
	switch t.kind {
	case "empty", "binary":
		return false
	case "union":
		for _, m := range t.members {
			if !m.isKeyable() {
				return false
			}
		}
		return true
	case "leafref":
		return t.target != nil && t.target.isKeyable()
	case "typedef":
		return t.td.t.isKeyable()
	}
	return true
}

func (t *typ) hasKind(k string) bool {
	switch t.kind {
	case k:
		return true
	case "union":
		for _, m := range t.members {
			if m.hasKind(k) {
				return true
			}
		}
	case "typedef":
		return t.td.t.hasKind(k)
	case "leafref":
		return t.target != nil && t.target.hasKind(k)
	}
	return false
}

// render adds the type statement to st; m is the module whose text contains st.
func (t *typ) render(st *stmt, m *mod) {
	switch t.kind {
	case "typedef":
		st.add("type", ref(m, t.td.m, t.td.name))
	case "enumeration":
		ts := st.add("type", "enumeration")
		for _, e := range t.enums {
			es := ts.add("enum", e.name)
			if e.explicit {
				es.add("value", fmt.Sprint(e.value))
			}
		}
	case "identityref":
		st.add("type", "identityref").add("base", ref(m, t.base.m, t.base.name))
	case "union":
		ts := st.add("type", "union")
		for _, mt := range t.members {
			mt.render(ts, m)
		}
	case "leafref":
		st.add("type", "leafref").add("path", t.path)
	case "decimal64":
		ts := st.add("type", "decimal64")
		ts.add("fraction-digits", fmt.Sprint(t.fd))
		if t.rng != "" {
			ts.add("range", t.rng)
		}
	case "string":
		ts := st.add("type", "string")
		if t.length != "" {
			ts.add("length", t.length)
		}
		if t.pattern != nil {
			ts.add("pattern", t.pattern.pat)
		}
	case "binary":
		ts := st.add("type", "binary")
		if t.length != "" {
			ts.add("length", t.length)
		}
	default:
		ts := st.add("type", t.kind)
		if t.ranged {
			ts.add("range", t.rngText())
		}
	}
}

func (t *typ) rngText() string {
	b := intBounds[t.kind]
	lo, hi := fmt.Sprint(t.lo), fmt.Sprint(t.hi)
	if t.lo == b[0] {
		lo = "min"
	}
	if t.hi == b[1] {
		hi = "max"
	}
	if t.lo == t.hi {
		return fmt.Sprint(t.lo)
	}
	return lo + ".." + hi
}

// defaultValue returns a value valid for the type, rendered in module m ("" when the type has no
// sensible default: leafref, empty, binary, identityref without derived identities).
func (g *gen) defaultValue(t *typ, m *mod, label string) string {
	switch t.kind {
	case "typedef":
		return g.defaultValue(t.td.t, t.td.m, label)
	case "enumeration":
		// A member whose name contains ':' is not used as a default: ygot treats the part before the
		// colon as a module prefix (gogen enumDefaultValue) and aborts with "enum value not found".
		// Observed on the unchanged tree; reported as a generator-error class, kept out of the draws.
		var ok []enumMember
		for _, e := range t.enums {
			if !strings.Contains(e.name, ":") {
				ok = append(ok, e)
			}
		}
		if len(ok) == 0 {
			return ""
		}
		return pick(g, ok, label+"-enum").name
	case "identityref":
		var vis []*identity
		for _, d := range t.base.allDerived() {
			if visible(m, d.m) {
				vis = append(vis, d)
			}
		}
		if len(vis) == 0 {
			return ""
		}
		d := pick(g, vis, label+"-ident")
		// RFC 7950 9.10.3: the default of an identityref is a prefixed name in the scope of the defining module
		return d.m.prefix + ":" + d.name
	case "union":
		for _, mt := range t.members {
			if v := g.defaultValue(mt, m, label); v != "" {
				return v
			}
		}
		return ""
	case "leafref", "empty", "binary":
		return ""
	case "boolean":
		return pick(g, []string{"true", "false"}, label+"-bool")
	case "decimal64":
		if t.decDef != "" {
			return t.decDef
		}
		return pick(g, []string{"0", "1.5", "-2.5"}, label+"-dec")
	case "string":
		if t.pattern != nil {
			return t.pattern.examples[0]
		}
		if t.length != "" {
			return "abcd" // every drawn length admits 4 characters
		}
		return pick(g, []string{"x", "default", "a b", "eth0", ""}, label+"-str")
	default: // integers
		lo, hi := t.lo, t.hi
		if !t.ranged {
			b := intBounds[t.kind]
			lo, hi = b[0], b[1]
		}
		c := []int64{lo, hi}
		if lo <= 0 && hi >= 0 {
			c = append(c, 0)
		}
		if lo <= 42 && hi >= 42 {
			c = append(c, 42)
		}
		return fmt.Sprint(pick(g, c, label+"-int"))
	}
}

var enumWords = []string{"up", "down", "one", "two", "three", "testing", "unknown", "full", "half", "auto", "ipv4", "ipv6", "l2", "x25"}

// exotic but legal enum names: every character is one ygot's sanitiser handles (gogen/helpers.go),
// and no two of them sanitise to the same Go identifier.
var enumExotic = []string{"x.y", "10g", "a b", "c+d", "e/f", "UP-LINK", "g:h", "i@j", "k*", "m,n", "µs", "Ω1", "é2"}

func (g *gen) drawEnum(label string) *typ {
	n := g.intn(2, 4, label+"-n")
	t := &typ{kind: "enumeration"}
	seen := map[string]bool{}
	sanit := map[string]bool{}
	next := 0
	first := true
	add := func(name string) {
		if seen[name] || sanit[sanitise(name)] {
			return
		}
		seen[name] = true
		sanit[sanitise(name)] = true
		e := enumMember{name: name}
		// goyang assigns max(highest, -1)+1 to an implicit member, RFC 7950 says highest+1: the two
		// differ while the highest value so far is below -1, so such a member is made explicit.
		mustExplicit := !first && next < 0
		if g.chance(40, label+"-explicit") || mustExplicit {
			e.explicit = true
			gap := g.intn(0, 5, label+"-gap")
			if first && g.chance(30, label+"-neg") {
				next = -g.intn(1, 9, label+"-negv")
				gap = 0
			}
			e.value = next + gap
			g.feat("enum-explicit-value")
		} else {
			e.value = next
		}
		next = e.value + 1
		first = false
		t.enums = append(t.enums, e)
	}
	for i := 0; i < n; i++ {
		if g.chance(12, label+"-exotic") {
			add(pick(g, enumExotic, label+"-exoticname"))
			g.feat("enum-exotic-name")
			continue
		}
		add(pick(g, enumWords, label+"-name"))
	}
	if g.o.Hostile {
		g.hostileEnum(t, add, seen, label)
	}
	if len(t.enums) < 1 {
		add("only")
	}
	g.feat("enumeration")
	return t
}

// sanitise mirrors the character classes that matter for Go constant names (used only to keep
// ordinary names apart; the hostile classes create the clashes on purpose).
func sanitise(s string) string {
	return strings.NewReplacer(".", "_", "-", "_", "/", "_", " ", "_", "+", "_PLUS", ",", "_COMMA", "@", "_AT", "$", "_DOLLAR", "*", "_ASTERISK", ":", "_COLON").Replace(s)
}

func (g *gen) drawInt(label string) *typ {
	t := &typ{kind: pick(g, intKinds, label+"-kind")}
	if g.chance(35, label+"-ranged") {
		b := intBounds[t.kind]
		t.ranged = true
		switch g.intn(0, 3, label+"-rshape") {
		case 0:
			t.lo, t.hi = b[0], 100
			if b[0] > 100 {
				t.hi = b[1]
			}
		case 1:
			t.lo, t.hi = 1, b[1]
		case 2:
			t.lo, t.hi = 1, 100
		default:
			t.lo, t.hi = 0, 0
			if b[0] < 0 {
				t.lo = -5
			}
			t.hi = 120
		}
		g.feat("range")
	}
	return t
}

func (g *gen) drawString(label string) *typ {
	t := &typ{kind: "string"}
	switch g.weighted(label+"-restr", 50, 20, 20, 10) {
	case 1:
		t.length = pick(g, []string{"1..64", "4", "0..10", "2..8 | 16", "min..32"}, label+"-len")
		g.feat("length")
	case 2:
		t.pattern = pick(g, patterns, label+"-pat")
		g.feat("pattern")
	case 3:
		t.pattern = pick(g, patterns[:1], label+"-pat")
		t.length = "1..64"
		g.feat("pattern")
		g.feat("length")
	}
	return t
}

func (g *gen) drawDecimal(label string) *typ {
	t := &typ{kind: "decimal64", fd: pick(g, []int{1, 2, 3, 6, 18}, label+"-fd")}
	if g.chance(40, label+"-ranged") {
		if t.fd == 18 {
			t.rng, t.decDef = "-1.5..1.5", "0.25"
		} else {
			r := pick(g, [][2]string{{"0..100", "50"}, {"-10.5..10.5", "0.5"}, {"1..max", "7"}, {"min..0 | 5..6.5", "5.5"}}, label+"-rng")
			t.rng, t.decDef = r[0], r[1]
		}
		g.feat("range")
	}
	g.feat("decimal64")
	return t
}

// typeCtx says where a type is going to be used.
type typeCtx struct {
	m       *mod   // module whose text will contain the type
	sc      *scope // nil inside typedefs
	key     bool   // must be keyable
	noRef   bool   // no leafref
	depth   int    // union nesting
	inUnion bool
	leafNm  string
}

// drawType draws a type usable in ctx.
func (g *gen) drawType(ctx typeCtx, label string) *typ {
	// candidate typedefs and identity bases visible from ctx.m
	var tds []*typedef
	var bases []*identity
	for _, m := range g.mods {
		if !visible(ctx.m, m) {
			continue
		}
		for _, td := range m.typedefs {
			if ctx.key && !td.t.isKeyable() {
				continue
			}
			if ctx.inUnion && td.t.hasKind("union") && ctx.depth > 1 {
				continue
			}
			tds = append(tds, td)
		}
		for _, id := range m.identities {
			if id.base == nil || len(id.derived) > 0 {
				bases = append(bases, id)
			}
		}
	}
	wTD, wIdref, wRef, wUnion, wEmpty, wBin := 14, 8, 18, 9, 3, 3
	if len(tds) == 0 {
		wTD = 0
	}
	if len(bases) == 0 {
		wIdref = 0
	}
	if ctx.noRef || ctx.inUnion || ctx.sc == nil || ctx.sc.inGrp {
		wRef = 0
	}
	if ctx.depth >= 2 {
		wUnion = 0
	}
	if ctx.key || ctx.inUnion {
		wEmpty, wBin = 0, 0
		if ctx.key {
			wEmpty = 0
		}
	}
	switch g.weighted(label+"-tk", 22, 20, 8, 7, 12, wTD, wIdref, wRef, wUnion, wEmpty, wBin) {
	case 0:
		return g.drawInt(label)
	case 1:
		return g.drawString(label)
	case 2:
		g.feat("boolean")
		return &typ{kind: "boolean"}
	case 3:
		return g.drawDecimal(label)
	case 4:
		return g.drawEnum(label)
	case 5:
		td := pick(g, tds, label+"-td")
		g.feat("typedef-use")
		if td.m != ctx.m {
			g.feat("typedef-cross-module")
		}
		if td.t.kind == "union" {
			g.feat("typedef-union-use")
		}
		return &typ{kind: "typedef", td: td}
	case 6:
		b := pick(g, bases, label+"-base")
		g.feat("identityref")
		if b.m != ctx.m {
			g.feat("identityref-cross-module")
		}
		return &typ{kind: "identityref", base: b}
	case 7:
		if t := g.drawLeafref(ctx, label); t != nil {
			return t
		}
		return g.drawString(label)
	case 8:
		return g.drawUnion(ctx, label)
	case 9:
		g.feat("empty")
		return &typ{kind: "empty"}
	default:
		g.feat("binary")
		t := &typ{kind: "binary"}
		if g.chance(30, label+"-blen") {
			t.length = "1..16"
		}
		return t
	}
}

func (g *gen) drawUnion(ctx typeCtx, label string) *typ {
	n := g.intn(2, 3, label+"-un")
	t := &typ{kind: "union"}
	sub := ctx
	sub.inUnion = true
	sub.depth = ctx.depth + 1
	kinds := map[string]bool{}
	for i := 0; i < n; i++ {
		mt := g.drawType(sub, fmt.Sprintf("%s-u%d", label, i))
		// ygot names union members after their Go type: two members of the same resolved kind are
		// legal YANG but pointless; keep the members' base kinds distinct.
		k := baseKind(mt)
		if kinds[k] {
			continue
		}
		kinds[k] = true
		t.members = append(t.members, mt)
	}
	if len(t.members) == 1 {
		// a one-member union is legal; keep it, it is a nice corner case
		g.feat("union-single-member")
	}
	g.feat("union")
	if t.hasKind("enumeration") {
		g.feat("union-with-enum")
	}
	if t.hasKind("identityref") {
		g.feat("union-with-identityref")
	}
	return t
}

// baseKind resolves typedefs; nested unions count as "union".
func baseKind(t *typ) string {
	if t.kind == "typedef" {
		return baseKind(t.td.t)
	}
	return t.kind
}
