// Package yanggen draws random YANG module sets (1..3 modules with imports) through
// pgregory.net/rapid for the code-generation properties C25..C29 (DESIGN.md 3.6).
//
// Everything random goes through *rapid.T, so a failing schema shrinks and replays. Two styles:
// a "plain" style (arbitrary trees: containers, lists with mixed keys, leaf-lists, choices,
// groupings, augments, typedefs, unions, identities, leafrefs, config false subtrees) and an
// OpenConfig style (config/state mirroring through shared groupings, lists wrapped in containers
// with leafref keys to config/<key>) which is what -compress_paths and path structs require.
//
// Hostile identifiers come from named collision classes (see hostile.go). A class listed in
// Options.Excluded is never drawn; the would-be draw is counted in Schema.ExcludedDraws.
//
// Soundness contract: every schema drawn is accepted by goyang (TestYanggenSelf) and contains
// nothing that ygot documents as unsupported (no bits, anydata, rpc, notification, binary or empty
// list keys).
package yanggen

import (
	"fmt"
	"os"
	"path/filepath"
	"sort"
	"strings"

	"github.com/openconfig/goyang/pkg/yang"
	"pgregory.net/rapid"
)

// Options steer one draw.
type Options struct {
	OpenConfigStyle bool            // config/state mirroring through shared groupings, lists wrapped in containers with leafref keys to config/<key>
	MaxModules      int             // 1..3, default 3
	Hostile         bool            // draw hostile identifiers from the collision classes (minus Excluded)
	Excluded        map[string]bool // collision classes / constructs not to draw (confirmed known findings), by class name
	Small           bool            // smaller trees (for expensive pipelines)
}

// Schema is one drawn module set.
type Schema struct {
	Files         map[string]string // file name ("m1.yang") -> YANG text
	Roots         []string          // file names to pass to the generator as positional args, sorted
	Features      map[string]int    // class label -> count, for evidence histograms
	ExcludedDraws map[string]int    // how many times an excluded class would have been drawn
}

// WriteTo writes the files into dir (created if missing).
func (s *Schema) WriteTo(dir string) error {
	if err := os.MkdirAll(dir, 0o755); err != nil {
		return err
	}
	for _, n := range s.fileNames() {
		if err := os.WriteFile(filepath.Join(dir, n), []byte(s.Files[n]), 0o644); err != nil {
			return err
		}
	}
	return nil
}

func (s *Schema) fileNames() []string {
	ns := make([]string, 0, len(s.Files))
	for n := range s.Files {
		ns = append(ns, n)
	}
	sort.Strings(ns)
	return ns
}

// Key is the canonical text of the schema (file names and contents in sorted order).
func (s *Schema) Key() string {
	var b strings.Builder
	for _, n := range s.fileNames() {
		fmt.Fprintf(&b, "==== %s%s\n%s\n", n, map[bool]string{true: " (root)", false: ""}[s.isRoot(n)], s.Files[n])
	}
	return b.String()
}

func (s *Schema) isRoot(n string) bool {
	for _, r := range s.Roots {
		if r == n {
			return true
		}
	}
	return false
}

// Has reports whether feature class c occurred at least once.
func (s *Schema) Has(c string) bool { return s.Features[c] > 0 }

// Classes returns the sorted feature labels (for rec.Case).
func (s *Schema) Classes() []string {
	cs := make([]string, 0, len(s.Features))
	for c := range s.Features {
		cs = append(cs, c)
	}
	sort.Strings(cs)
	return cs
}

// ---------------------------------------------------------------------------------------------
// statement tree and printer

type stmt struct {
	kw, arg string
	noArg   bool
	subs    []*stmt
}

func (s *stmt) add(kw, arg string) *stmt {
	c := &stmt{kw: kw, arg: arg}
	s.subs = append(s.subs, c)
	return c
}

func (s *stmt) addStmt(c *stmt) *stmt { s.subs = append(s.subs, c); return c }

func (s *stmt) find(kw string) *stmt {
	for _, c := range s.subs {
		if c.kw == kw {
			return c
		}
	}
	return nil
}

func plainArg(a string) bool {
	if a == "" {
		return false
	}
	for _, r := range a {
		switch {
		case r >= 'a' && r <= 'z', r >= 'A' && r <= 'Z', r >= '0' && r <= '9', r == '_', r == '-', r == '.', r == ':':
		default:
			return false
		}
	}
	return true
}

func quoteArg(a string) string {
	if plainArg(a) {
		return a
	}
	if strings.Contains(a, `\`) && !strings.Contains(a, "'") {
		return "'" + a + "'"
	}
	r := strings.NewReplacer(`\`, `\\`, `"`, `\"`)
	return `"` + r.Replace(a) + `"`
}

func (s *stmt) print(b *strings.Builder, ind int) {
	pad := strings.Repeat("  ", ind)
	b.WriteString(pad)
	b.WriteString(s.kw)
	if !s.noArg {
		b.WriteString(" ")
		b.WriteString(quoteArg(s.arg))
	}
	if len(s.subs) == 0 {
		b.WriteString(";\n")
		return
	}
	b.WriteString(" {\n")
	for _, c := range s.subs {
		c.print(b, ind+1)
	}
	b.WriteString(pad)
	b.WriteString("}\n")
}

// ---------------------------------------------------------------------------------------------
// generator state

type mod struct {
	name, prefix string
	file         string
	imports      []*mod
	top          *stmt // module statement
	typedefs     []*typedef
	identities   []*identity
	groupings    []*grouping
	scope        *scope // top-level data scope
	hasData      bool
	tdNames      map[string]bool
	idNames      map[string]bool
	grpNames     map[string]bool
	bodyStart    int // index in top.subs where typedef/identity/grouping go (all appended in order anyway)
}

type seg struct {
	m    *mod
	name string
}

// scope is a data-node parent: a place children can be added to.
type scope struct {
	m        *mod            // module whose text holds the statements added here
	st       *stmt           // statement receiving the children
	names    map[string]bool // YANG identifiers in use among the data children (choice/case flattened: shared with the enclosing data parent)
	camel    map[string]bool // CamelCase forms in use
	dataPath []seg           // data-tree path of the parent; nil inside groupings
	schPath  []seg           // schema-node path (with choice/case); nil inside groupings
	inGrp    bool
	config   bool
	depth    int
	list     bool // parent is a list entry
	inChoice bool
	underCh  bool     // some ancestor (or the parent itself) is a choice/case: leaves here are no leafref targets (ygot cannot resolve them)
	ocTop    bool     // top level of an OpenConfig-style module: under compression the children's structs have bare CamelCase names
	kinfo    *keyInfo // non-nil in the name space of a list entry (shared wherever names is shared): the keys drawn so far
	inAug    bool     // statements are added inside an augment (no mandatory nodes: RFC 7950 7.17)
}

type target struct { // leafref target candidate
	path   []seg
	t      *typ
	config bool
	grp    *grouping // non-nil: only reachable relatively inside this grouping instantiation (unused for absolute refs)
}

type augTarget struct {
	sc   *scope
	kind string // container | list | choice
}

type gen struct {
	t       *rapid.T
	o       Options
	s       *Schema
	mods    []*mod
	budget  int // remaining data nodes
	targets []target
	augs    []augTarget
	maxDep  int
}

func (g *gen) feat(c string) { g.s.Features[c]++ }

func (g *gen) intn(lo, hi int, label string) int {
	if hi <= lo {
		return lo
	}
	return rapid.IntRange(lo, hi).Draw(g.t, label)
}

func (g *gen) chance(pct int, label string) bool {
	return rapid.IntRange(0, 99).Draw(g.t, label) < pct
}

func pick[T any](g *gen, xs []T, label string) T {
	return xs[rapid.IntRange(0, len(xs)-1).Draw(g.t, label)]
}

// weighted picks an index according to weights (all >= 0, sum > 0).
func (g *gen) weighted(label string, ws ...int) int {
	sum := 0
	for _, w := range ws {
		sum += w
	}
	x := rapid.IntRange(0, sum-1).Draw(g.t, label)
	for i, w := range ws {
		if x < w {
			return i
		}
		x -= w
	}
	return len(ws) - 1
}

var camelCase = yang.CamelCase

// Draw draws one schema.
func Draw(t *rapid.T, o Options) *Schema {
	if o.MaxModules < 1 || o.MaxModules > 3 {
		o.MaxModules = 3
	}
	g := &gen{t: t, o: o, s: &Schema{Files: map[string]string{}, Features: map[string]int{}, ExcludedDraws: map[string]int{}}}
	g.budget = 34
	g.maxDep = 3
	if o.Small {
		g.budget = 16
		g.maxDep = 2
	}
	nm := g.intn(1, o.MaxModules, "modules")
	g.feat(fmt.Sprintf("modules-%d", nm))
	modWords := rapid.Permutation([]string{"alpha", "bravo", "core", "delta", "edge", "fab"}).Draw(t, "modnames")
	for i := 0; i < nm; i++ {
		name := fmt.Sprintf("y%s", modWords[i])
		if i == 0 && nm > 1 {
			name += "-types"
		}
		m := &mod{name: name, prefix: fmt.Sprintf("%s%d", modWords[i][:1], i+1), file: name + ".yang",
			tdNames: map[string]bool{}, idNames: map[string]bool{}, grpNames: map[string]bool{}}
		m.top = &stmt{kw: "module", arg: name}
		m.top.add("yang-version", "1.1")
		m.top.add("namespace", "urn:verif:"+name)
		m.top.add("prefix", m.prefix)
		for _, im := range g.mods { // every module imports all earlier ones (unused imports are legal)
			m.imports = append(m.imports, im)
			m.top.add("import", im.name).add("prefix", im.prefix)
		}
		m.scope = &scope{m: m, st: m.top, names: map[string]bool{}, camel: map[string]bool{}, dataPath: []seg{}, schPath: []seg{}, config: true}
		g.mods = append(g.mods, m)
	}
	if o.OpenConfigStyle {
		g.feat("style-openconfig")
		g.drawOC()
	} else {
		g.feat("style-plain")
		g.drawPlain()
	}
	for _, m := range g.mods {
		var b strings.Builder
		m.top.print(&b, 0)
		g.s.Files[m.file] = b.String()
		if m.hasData {
			g.s.Roots = append(g.s.Roots, m.file)
		}
	}
	sort.Strings(g.s.Roots)
	if len(g.s.Roots) == 0 { // cannot happen: every style creates at least one data node
		panic("yanggen: schema without data nodes")
	}
	return g.s
}

// dataMods returns the modules that carry data nodes (all but a leading "-types" module).
func (g *gen) dataMods() []*mod {
	if len(g.mods) == 1 {
		return g.mods
	}
	return g.mods[1:]
}

func (g *gen) typesMod() *mod { return g.mods[0] }

// visible reports whether definitions of d can be referenced from module m.
func visible(m, d *mod) bool {
	if m == d {
		return true
	}
	for _, i := range m.imports {
		if i == d {
			return true
		}
	}
	return false
}

// ref renders a reference to a definition name of module d from module m.
func ref(m, d *mod, name string) string {
	if m == d {
		return name
	}
	return d.prefix + ":" + name
}

// ---------------------------------------------------------------------------------------------
// names

var plainWords = []string{"name", "id", "mtu", "rate", "mode", "admin-state", "oper-status", "index", "label", "addr",
	"peer", "group", "policy", "rule", "vlan", "port", "slot", "unit", "tag", "weight", "metric", "area", "zone", "role",
	"level", "prio", "hold-time", "descr", "enabled", "kind", "speed", "last-change", "in-pkts", "out-pkts", "r2"}

// freshName draws an ordinary identifier that is new in sc both literally and in CamelCase.
func (g *gen) freshName(sc *scope, label string) string {
	w := pick(g, plainWords, label)
	n := w
	for i := 2; sc.names[n] || sc.camel[camelCase(n)] || reservedOC(n); i++ {
		n = fmt.Sprintf("%s%d", w, i)
	}
	return n
}

func reservedOC(n string) bool { return n == "config" || n == "state" }

func (sc *scope) take(n string) {
	sc.names[n] = true
	sc.camel[camelCase(n)] = true
}

// free reports whether n can be added to sc without any (literal or CamelCase) clash.
func (sc *scope) free(n string) bool { return !sc.names[n] && !sc.camel[camelCase(n)] }

// child creates the scope of a new container/list statement st named name under sc.
func (sc *scope) child(st *stmt, name string, m *mod) *scope {
	// (kinfo is not inherited: a container or list below a list entry opens a new name space)
	c := &scope{m: sc.m, st: st, names: map[string]bool{}, camel: map[string]bool{}, inGrp: sc.inGrp, config: sc.config, depth: sc.depth + 1, underCh: sc.underCh || sc.inChoice, inAug: sc.inAug}
	if !sc.inGrp {
		c.dataPath = append(append([]seg{}, sc.dataPath...), seg{m, name})
		c.schPath = append(append([]seg{}, sc.schPath...), seg{m, name})
	}
	return c
}
