package yanggen

import (
	"fmt"
	"strings"
)

// OpenConfig style: every element is a container (or a list wrapped in a container) with a
// "config" container fed by grouping <x>-config and a "state" container (config false) fed by the
// same grouping plus <x>-state. List keys are leafrefs to ../config/<key>. This is the shape that
// -compress_paths (docs/design.md "schema compression") and the path-struct generator expect.

type ocElem struct {
	m       *mod
	body    *scope // names of the compressed element: config leaves, state leaves, child elements
	schPath []seg  // schema path of the element body (container or list)
	hasCfg  bool
	hasSt   bool
	config  bool
	cfgLeaf []ocLeaf
}

type ocLeaf struct {
	name string
	t    *typ
}

func (g *gen) drawOC() {
	g.shareTopLevel()
	g.drawIdentities()
	g.drawTypedefs()
	var elems []*ocElem
	for mi, m := range g.dataMods() {
		m.scope.ocTop = true
		n := g.intn(1, 2, "oc-roots")
		if mi > 0 {
			n = g.intn(0, 1, "oc-roots2")
		}
		for i := 0; i < n && g.budget > 0; i++ {
			g.ocElement(m, m.scope, m.top, 0, &elems, true)
			m.hasData = true
		}
		if mi > 0 && len(elems) > 0 {
			for a, na := 0, g.intn(1, 2, "oc-augn"); a < na && g.budget > 0; a++ {
				g.ocAugment(m, elems, &elems)
			}
		}
	}
}

// ocElement adds one element below parent (whose statements go into pst).
func (g *gen) ocElement(m *mod, parent *scope, pst *stmt, depth int, elems *[]*ocElem, config bool) {
	g.budget--
	isList := g.chance(50, "oc-islist")
	var name, wrap string
	for i := 0; ; i++ {
		name = g.nodeNameOC(parent, "oc-elem")
		wrap = name + "s"
		if !isList || (parent.free(wrap) && camelCase(wrap) != camelCase(name)) {
			break
		}
		if i > 5 {
			isList = false
			break
		}
	}
	parent.take(name)
	if isList {
		parent.take(wrap)
	}
	gname := fmt.Sprintf("%s-%d", strings.Trim(strings.Map(func(r rune) rune {
		if r >= 'a' && r <= 'z' || r >= '0' && r <= '9' || r == '-' {
			return r
		}
		return '-'
	}, strings.ToLower(name)), "-"), len(m.grpNames)+1)
	if gname[0] == '-' || gname[0] >= '0' && gname[0] <= '9' {
		gname = "g" + gname
	}
	m.grpNames[gname] = true

	stateOnly := g.chance(12, "oc-stateonly") || !config
	structural := !isList && depth < g.maxDep && g.chance(10, "oc-structural")
	el := &ocElem{m: m, config: config && !stateOnly}
	el.body = &scope{m: m, names: map[string]bool{"config": true, "state": true}, camel: map[string]bool{"Config": true, "State": true}, config: el.config, depth: depth + 1, list: isList, inGrp: true}
	if isList {
		el.body.kinfo = &keyInfo{}
		if depth == 0 {
			el.body.kinfo.structCamel = camelCase(name) // compressed: /<name>s/<name> becomes struct <Name>
		}
	}

	// groupings with the leaves
	var cfgG, stG *stmt
	nCfg := g.intn(1, 3, "oc-ncfg")
	nKeys := 0
	if isList {
		nKeys = 1 + g.weighted("oc-nkeys", 62, 28, 10)
		if nCfg < nKeys {
			nCfg = nKeys
		}
	}
	if !structural {
		cfgG = m.top.add("grouping", gname+"-config")
		leafScope := &scope{m: m, st: cfgG, names: el.body.names, camel: el.body.camel, inGrp: true, config: true, depth: depth + 2, kinfo: el.body.kinfo}
		hk := []string(nil)
		if isList {
			hk = g.hostileKeys(leafScope, name, nKeys)
		}
		for i := 0; i < nCfg; i++ {
			o := leafOpts{key: i < nKeys}
			if i < len(hk) {
				o.name = hk[i]
			}
			n, t := g.addLeafOC(leafScope, o, *elems)
			el.cfgLeaf = append(el.cfgLeaf, ocLeaf{n, t})
		}
		if g.chance(25, "oc-cfg-leaflist") {
			g.addLeafList(leafScope)
		}
		if g.chance(65, "oc-hasstate") {
			stG = m.top.add("grouping", gname+"-state")
			stScope := &scope{m: m, st: stG, names: el.body.names, camel: el.body.camel, inGrp: true, config: false, depth: depth + 2, kinfo: el.body.kinfo}
			for i, n := 0, g.intn(1, 2, "oc-nstate"); i < n; i++ {
				g.addLeafOC(stScope, leafOpts{}, *elems)
			}
			g.feat("oc-derived-state")
		}
	}

	// the element itself, either inside a <x>-top grouping that is then used, or inline
	holder := pst
	viaTop := g.chance(60, "oc-viatop")
	if viaTop {
		holder = m.top.add("grouping", gname+"-top")
		pst.add("uses", gname+"-top")
		g.feat("uses")
		g.feat("grouping")
	} else {
		g.feat("oc-inline")
	}
	var body *stmt
	if isList {
		w := holder.add("container", wrap)
		if stateOnly && config {
			w.add("config", "false")
		}
		body = w.add("list", name)
		var keys []string
		for _, l := range el.cfgLeaf[:nKeys] {
			keys = append(keys, l.name)
		}
		body.add("key", strings.Join(keys, " "))
		if !stateOnly && g.chance(20, "oc-ordered") {
			body.add("ordered-by", "user")
			g.feat("list-ordered-by-user")
		}
		sub := "config"
		if stateOnly {
			sub = "state"
		}
		kinds := map[string]bool{}
		for _, l := range el.cfgLeaf[:nKeys] {
			body.add("leaf", l.name).add("type", "leafref").add("path", "../"+sub+"/"+l.name)
			kinds[baseKind(l.t)] = true
			g.feat("key-type:" + baseKind(l.t))
		}
		g.feat("oc-list")
		g.feat("list")
		g.feat("leafref")
		if nKeys > 1 {
			g.feat("list-multikey")
			if len(kinds) > 1 {
				g.feat("list-multikey-mixed")
			}
		} else {
			g.feat("list-singlekey")
		}
		if depth > 0 {
			g.feat("list-nested")
		}
		el.schPath = append(append([]seg{}, parent.schPath...), seg{m, wrap}, seg{m, name})
	} else {
		body = holder.add("container", name)
		if stateOnly && config && !structural {
			body.add("config", "false")
		}
		if g.chance(10, "oc-presence") {
			body.add("presence", "enables "+name)
			g.feat("presence")
		}
		el.schPath = append(append([]seg{}, parent.schPath...), seg{m, name})
		g.feat("container")
	}
	el.body.schPath = el.schPath
	el.body.st = body
	if !structural {
		if !stateOnly {
			body.add("container", "config").add("uses", gname+"-config")
			el.hasCfg = true
		}
		s := body.add("container", "state")
		if !stateOnly {
			s.add("config", "false")
		}
		s.add("uses", gname+"-config")
		if stG != nil {
			s.add("uses", gname+"-state")
		}
		el.hasSt = true
		g.feat("oc-config-state")
		if stateOnly {
			g.feat("oc-state-only")
			g.feat("config-false-subtree")
		}
	} else {
		g.feat("oc-structural")
	}
	*elems = append(*elems, el)
	// targets for later leafrefs: the list keys and config leaves
	if el.hasCfg || el.hasSt {
		sub := "config"
		if !el.hasCfg {
			sub = "state"
		}
		for i, l := range el.cfgLeaf {
			if baseKind(l.t) == "leafref" || baseKind(l.t) == "empty" {
				continue
			}
			p := append(append([]seg{}, el.schPath...), seg{m, sub}, seg{m, l.name})
			g.targets = append(g.targets, target{path: p, t: l.t, config: el.hasCfg})
			if isList && i < nKeys {
				kp := append(append([]seg{}, el.schPath...), seg{m, l.name})
				g.targets = append(g.targets, target{path: kp, t: l.t, config: el.hasCfg})
			}
		}
	}
	// children
	if depth < g.maxDep-1 || structural {
		nch := g.weighted("oc-nchildren", 45, 40, 15)
		if structural && nch == 0 {
			nch = 1
		}
		for i := 0; i < nch && g.budget > 0; i++ {
			g.ocElement(m, el.body, body, depth+1, elems, el.config)
		}
	}
}

// nodeNameOC: element names (hostile classes apply like for plain nodes).
func (g *gen) nodeNameOC(sc *scope, label string) string {
	return g.nodeName(sc, "container")
}

// addLeafOC adds a leaf to a -config / -state grouping. Leafrefs are absolute paths to keys or
// config leaves of earlier elements (a relative path would be resolved from both the config and
// the state instantiation).
func (g *gen) addLeafOC(sc *scope, o leafOpts, elems []*ocElem) (string, *typ) {
	g.budget--
	name := g.leafName(sc, o)
	sc.take(name)
	var t *typ
	if len(g.targets) > 0 && g.chance(14, "oc-leafref") {
		var cands []target
		for _, tg := range g.targets {
			if (!sc.config || tg.config) && (!o.key || tg.t.isKeyable()) && visiblePath(sc.m, tg.path) {
				cands = append(cands, tg)
			}
		}
		if len(cands) > 0 {
			tg := pick(g, cands, "oc-lrtarget")
			var p strings.Builder
			for _, s := range tg.path {
				p.WriteString("/" + s.m.prefix + ":" + s.name)
			}
			t = &typ{kind: "leafref", path: p.String(), target: tg.t}
			g.feat("leafref")
			g.feat("leafref-absolute")
		}
	}
	// a leafref may also sit in a leaf-list (the config and the state copy of the grouping then both
	// hold a leaf-list whose path runs through a config container)
	kind := "leaf"
	if t != nil && !o.key && g.chance(35, "oc-leafref-leaflist") {
		kind = "leaf-list"
		g.feat("leafref-leaf-list")
	}
	st := sc.st.add(kind, name)
	if t == nil {
		t = g.drawType(typeCtx{m: sc.m, sc: sc, key: o.key, noRef: true}, "oc-leaf-type")
	}
	t.render(st, sc.m)
	if kind == "leaf" && !o.key && sc.config && g.chance(22, "oc-default") {
		g.addDefault(st, t, sc.m)
	}
	g.feat(kind)
	return name, t
}

func visiblePath(m *mod, p []seg) bool {
	for _, s := range p {
		if !visible(m, s.m) {
			return false
		}
	}
	return true
}

// ocAugment augments an element of an earlier module from module m: either leaves into config
// and state through one shared grouping, or a whole new child element.
func (g *gen) ocAugment(m *mod, elems []*ocElem, all *[]*ocElem) {
	var cands []*ocElem
	for _, e := range elems {
		if e.m != m && visiblePath(m, e.schPath) && len(e.schPath) > 0 {
			cands = append(cands, e)
		}
	}
	if len(cands) == 0 {
		return
	}
	e := pick(g, cands, "oc-augtarget")
	var p strings.Builder
	for _, s := range e.schPath {
		p.WriteString("/" + s.m.prefix + ":" + s.name)
	}
	if e.hasCfg && e.hasSt && g.chance(60, "oc-augleaves") {
		gname := fmt.Sprintf("aug-%d", len(m.grpNames)+1)
		m.grpNames[gname] = true
		gst := m.top.add("grouping", gname+"-config")
		sc := &scope{m: m, st: gst, names: e.body.names, camel: e.body.camel, inGrp: true, config: true, depth: e.body.depth + 1, kinfo: e.body.kinfo}
		for i, n := 0, g.intn(1, 2, "oc-augnleaves"); i < n; i++ {
			g.addLeafOC(sc, leafOpts{}, nil)
		}
		m.top.add("augment", p.String()+"/"+e.m.prefix+":config").add("uses", gname+"-config")
		m.top.add("augment", p.String()+"/"+e.m.prefix+":state").add("uses", gname+"-config")
		g.feat("oc-augment-config-state")
	} else {
		ast := m.top.add("augment", p.String())
		sc := &scope{m: m, st: ast, names: e.body.names, camel: e.body.camel, schPath: e.schPath, config: e.config, depth: e.body.depth, inGrp: true, kinfo: e.body.kinfo}
		g.ocElement(m, sc, ast, e.body.depth, all, e.config)
		g.feat("oc-augment-element")
	}
	m.hasData = true
	g.feat("augment")
	g.feat("augment-cross-module")
}
