package protoparse

import (
	"fmt"
	"math"
	"strings"
)

type parser struct {
	lx   *lexer
	tok  token
	peek *token
	file *File
}

// Parse parses src. name is the path other files use to import this file.
func Parse(name, src string) (*File, error) {
	p := &parser{lx: &lexer{file: name, src: src, line: 1, col: 1}, file: &File{Name: name, Syntax: "proto2"}}
	if err := p.advance(); err != nil {
		return nil, err
	}
	if err := p.parseFile(); err != nil {
		return nil, err
	}
	return p.file, nil
}

func (p *parser) advance() error {
	if p.peek != nil {
		p.tok, p.peek = *p.peek, nil
		return nil
	}
	t, err := p.lx.next()
	if err != nil {
		return err
	}
	p.tok = t
	return nil
}

func (p *parser) errf(kind, format string, a ...interface{}) error {
	return &Error{File: p.lx.file, Line: p.tok.line, Col: p.tok.col, Kind: kind, Msg: fmt.Sprintf(format, a...)}
}

func (p *parser) unsupported(what string) error {
	return fmt.Errorf("%s:%d:%d: %s: %w", p.lx.file, p.tok.line, p.tok.col, what, ErrUnsupported)
}

func (p *parser) isSym(s string) bool   { return p.tok.kind == tSym && p.tok.text == s }
func (p *parser) isIdent(s string) bool { return p.tok.kind == tIdent && p.tok.text == s }

func (p *parser) expectSym(s string) error {
	if !p.isSym(s) {
		return p.errf("syntax", "expected %q, found %v", s, p.tok)
	}
	return p.advance()
}

func (p *parser) ident() (string, error) {
	if p.tok.kind != tIdent {
		return "", p.errf("syntax", "expected identifier, found %v", p.tok)
	}
	s := p.tok.text
	return s, p.advance()
}

// dotted parses ident(.ident)*, optionally with a leading dot.
func (p *parser) dotted(allowLeadingDot bool) (string, error) {
	var b strings.Builder
	if allowLeadingDot && p.isSym(".") {
		b.WriteByte('.')
		if err := p.advance(); err != nil {
			return "", err
		}
	}
	for {
		id, err := p.ident()
		if err != nil {
			return "", err
		}
		b.WriteString(id)
		if !p.isSym(".") {
			return b.String(), nil
		}
		b.WriteByte('.')
		if err := p.advance(); err != nil {
			return "", err
		}
	}
}

func (p *parser) stringLit() (string, error) {
	if p.tok.kind != tString {
		return "", p.errf("syntax", "expected string literal, found %v", p.tok)
	}
	var b strings.Builder
	for p.tok.kind == tString { // adjacent literals concatenate
		b.WriteString(p.tok.str)
		if err := p.advance(); err != nil {
			return "", err
		}
	}
	return b.String(), nil
}

// signedInt parses [-] intLit into an int64 (error if it does not fit).
func (p *parser) signedInt(what string) (int64, error) {
	neg := false
	if p.isSym("-") {
		neg = true
		if err := p.advance(); err != nil {
			return 0, err
		}
	}
	if p.tok.kind != tInt {
		return 0, p.errf("syntax", "expected integer for %s, found %v", what, p.tok)
	}
	u := p.tok.u
	var v int64
	switch {
	case !neg && u <= math.MaxInt64:
		v = int64(u)
	case neg && u <= 1<<63:
		v = -int64(u)
	default:
		return 0, p.errf("range", "%s %s out of range", what, p.tok.text)
	}
	return v, p.advance()
}

func (p *parser) parseFile() error {
	first := true
	for p.tok.kind != tEOF {
		switch {
		case p.isSym(";"):
			if err := p.advance(); err != nil {
				return err
			}
		case p.isIdent("syntax"):
			if !first {
				return p.errf("syntax", "syntax statement must be the first statement")
			}
			if err := p.advance(); err != nil {
				return err
			}
			if err := p.expectSym("="); err != nil {
				return err
			}
			s, err := p.stringLit()
			if err != nil {
				return err
			}
			if s != "proto2" && s != "proto3" {
				return p.errf("syntax", "unrecognised syntax %q", s)
			}
			p.file.Syntax = s
			if err := p.expectSym(";"); err != nil {
				return err
			}
		case p.isIdent("edition"):
			return p.unsupported("editions")
		case p.isIdent("package"):
			if p.file.Package != "" {
				return p.errf("syntax", "multiple package definitions")
			}
			if err := p.advance(); err != nil {
				return err
			}
			n, err := p.dotted(false)
			if err != nil {
				return err
			}
			p.file.Package = n
			if err := p.expectSym(";"); err != nil {
				return err
			}
		case p.isIdent("import"):
			im := Import{Line: p.tok.line}
			if err := p.advance(); err != nil {
				return err
			}
			if p.isIdent("public") {
				im.Public = true
				if err := p.advance(); err != nil {
					return err
				}
			} else if p.isIdent("weak") {
				im.Weak = true
				if err := p.advance(); err != nil {
					return err
				}
			}
			s, err := p.stringLit()
			if err != nil {
				return err
			}
			im.Path = s
			p.file.Imports = append(p.file.Imports, im)
			if err := p.expectSym(";"); err != nil {
				return err
			}
		case p.isIdent("option"):
			o, err := p.optionStmt()
			if err != nil {
				return err
			}
			p.file.Options = append(p.file.Options, o)
		case p.isIdent("message"):
			m, err := p.message()
			if err != nil {
				return err
			}
			p.file.Messages = append(p.file.Messages, m)
		case p.isIdent("enum"):
			e, err := p.enum()
			if err != nil {
				return err
			}
			p.file.Enums = append(p.file.Enums, e)
		case p.isIdent("extend"):
			x, err := p.extend()
			if err != nil {
				return err
			}
			p.file.Extends = append(p.file.Extends, x)
		case p.isIdent("service"):
			return p.unsupported("service")
		default:
			return p.errf("syntax", "expected top-level statement, found %v", p.tok)
		}
		first = false
	}
	return nil
}

// optionStmt parses `option name = const ;`.
func (p *parser) optionStmt() (Option, error) {
	if err := p.advance(); err != nil { // 'option'
		return Option{}, err
	}
	o, err := p.optionBody()
	if err != nil {
		return o, err
	}
	return o, p.expectSym(";")
}

// optionBody parses `name = const`.
func (p *parser) optionBody() (Option, error) {
	o := Option{Line: p.tok.line, Col: p.tok.col}
	var name strings.Builder
	if p.isSym("(") {
		if err := p.advance(); err != nil {
			return o, err
		}
		n, err := p.dotted(true)
		if err != nil {
			return o, err
		}
		if err := p.expectSym(")"); err != nil {
			return o, err
		}
		o.Ext = n
		name.WriteString("(" + n + ")")
	} else {
		n, err := p.ident()
		if err != nil {
			return o, err
		}
		name.WriteString(n)
	}
	for p.isSym(".") {
		if err := p.advance(); err != nil {
			return o, err
		}
		if p.isSym("(") {
			return o, p.unsupported("extension name inside an option path")
		}
		n, err := p.ident()
		if err != nil {
			return o, err
		}
		o.Rest = append(o.Rest, n)
		name.WriteString("." + n)
	}
	o.Name = name.String()
	if err := p.expectSym("="); err != nil {
		return o, err
	}
	c, err := p.constant()
	if err != nil {
		return o, err
	}
	o.Value = c
	return o, nil
}

func (p *parser) constant() (Const, error) {
	switch {
	case p.isSym("{"):
		return Const{}, p.unsupported("aggregate option value")
	case p.tok.kind == tString:
		s, err := p.stringLit()
		return Const{Kind: ConstString, Str: s}, err
	case p.tok.kind == tIdent:
		c := Const{Kind: ConstIdent, Ident: p.tok.text}
		return c, p.advance()
	}
	neg := false
	if p.isSym("-") || p.isSym("+") {
		neg = p.isSym("-")
		if err := p.advance(); err != nil {
			return Const{}, err
		}
	}
	switch p.tok.kind {
	case tInt:
		c := Const{Kind: ConstInt, Neg: neg, Int: p.tok.u}
		return c, p.advance()
	case tFloat:
		f := p.tok.f
		if neg {
			f = -f
		}
		return Const{Kind: ConstFloat, Float: f}, p.advance()
	case tIdent:
		if p.tok.text == "inf" || p.tok.text == "nan" {
			c := Const{Kind: ConstIdent, Ident: p.tok.text, Neg: neg}
			return c, p.advance()
		}
	}
	return Const{}, p.errf("syntax", "expected option value, found %v", p.tok)
}

// bracketOptions parses `[ opt (, opt)* ]` if present.
func (p *parser) bracketOptions() ([]Option, error) {
	if !p.isSym("[") {
		return nil, nil
	}
	if err := p.advance(); err != nil {
		return nil, err
	}
	var out []Option
	for {
		o, err := p.optionBody()
		if err != nil {
			return nil, err
		}
		out = append(out, o)
		if p.isSym(",") {
			if err := p.advance(); err != nil {
				return nil, err
			}
			continue
		}
		return out, p.expectSym("]")
	}
}

func (p *parser) message() (*Message, error) {
	m := &Message{Line: p.tok.line, Col: p.tok.col}
	if err := p.advance(); err != nil { // 'message'
		return nil, err
	}
	n, err := p.ident()
	if err != nil {
		return nil, err
	}
	m.Name = n
	if err := p.expectSym("{"); err != nil {
		return nil, err
	}
	for !p.isSym("}") {
		if p.tok.kind == tEOF {
			return nil, p.errf("syntax", "unexpected end of file in message %s", m.Name)
		}
		if err := p.messageElem(m); err != nil {
			return nil, err
		}
	}
	return m, p.advance()
}

// nextIsSym reports whether the token after the current one is the symbol s.
func (p *parser) nextIsSym(s string) (bool, error) {
	if p.peek == nil {
		t, err := p.lx.next()
		if err != nil {
			return false, err
		}
		p.peek = &t
	}
	return p.peek.kind == tSym && p.peek.text == s, nil
}

// messageElem parses one statement of a message body. Like protoc, the statement keywords
// (message, enum, oneof, extend, option, reserved, extensions, group labels) are decided by the
// first token alone.
func (p *parser) messageElem(m *Message) error {
	if p.isSym(";") {
		return p.advance()
	}
	if p.tok.kind == tIdent {
		switch p.tok.text {
		case "message":
			c, err := p.message()
			if err != nil {
				return err
			}
			m.Messages = append(m.Messages, c)
			return nil
		case "enum":
			e, err := p.enum()
			if err != nil {
				return err
			}
			m.Enums = append(m.Enums, e)
			return nil
		case "oneof":
			return p.oneof(m)
		case "extend":
			x, err := p.extend()
			if err != nil {
				return err
			}
			m.Extends = append(m.Extends, x)
			return nil
		case "option":
			o, err := p.optionStmt()
			if err != nil {
				return err
			}
			m.Options = append(m.Options, o)
			return nil
		case "reserved":
			rs, names, err := p.reserved()
			if err != nil {
				return err
			}
			m.Reserved = append(m.Reserved, rs...)
			m.ReservedNames = append(m.ReservedNames, names...)
			return nil
		case "extensions":
			if dot, err := p.nextIsSym("."); err != nil {
				return err
			} else if dot {
				return p.errf("syntax", "keyword %q cannot start a type name (protoc expects an extension range here)", p.tok.text)
			}
			return p.unsupported("extension ranges")
		}
	}
	f, err := p.field(true)
	if err != nil {
		return err
	}
	f.Oneof = -1
	m.Fields = append(m.Fields, f)
	return nil
}

func (p *parser) reserved() ([]Range, []string, error) {
	if err := p.advance(); err != nil {
		return nil, nil, err
	}
	var rs []Range
	var names []string
	if p.tok.kind == tString {
		for {
			s, err := p.stringLit()
			if err != nil {
				return nil, nil, err
			}
			names = append(names, s)
			if p.isSym(",") {
				if err := p.advance(); err != nil {
					return nil, nil, err
				}
				continue
			}
			break
		}
		return nil, names, p.expectSym(";")
	}
	for {
		a, err := p.signedInt("reserved number")
		if err != nil {
			return nil, nil, err
		}
		b := a
		if p.isIdent("to") {
			if err := p.advance(); err != nil {
				return nil, nil, err
			}
			if p.isIdent("max") {
				b = math.MaxInt64
				if err := p.advance(); err != nil {
					return nil, nil, err
				}
			} else if b, err = p.signedInt("reserved number"); err != nil {
				return nil, nil, err
			}
		}
		rs = append(rs, Range{a, b})
		if p.isSym(",") {
			if err := p.advance(); err != nil {
				return nil, nil, err
			}
			continue
		}
		break
	}
	return rs, nil, p.expectSym(";")
}

// field parses `[label] type name = number [opts];` (labels only when allowLabel).
func (p *parser) field(allowLabel bool) (*Field, error) {
	f := &Field{Line: p.tok.line, Col: p.tok.col, Oneof: -1}
	if allowLabel && p.tok.kind == tIdent {
		switch p.tok.text {
		case "repeated", "optional", "required":
			switch p.tok.text {
			case "repeated":
				f.Repeated = true
			case "optional":
				f.Optional = true
			default:
				f.Required = true
			}
			if err := p.advance(); err != nil {
				return nil, err
			}
		}
	}
	if p.isIdent("map") {
		if lt, err := p.nextIsSym("<"); err != nil {
			return nil, err
		} else if lt {
			if err := p.advance(); err != nil {
				return nil, err
			}
			if err := p.advance(); err != nil { // '<'
				return nil, err
			}
			k, err := p.dotted(true)
			if err != nil {
				return nil, err
			}
			if err := p.expectSym(","); err != nil {
				return nil, err
			}
			v, err := p.dotted(true)
			if err != nil {
				return nil, err
			}
			if err := p.expectSym(">"); err != nil {
				return nil, err
			}
			if f.Repeated || f.Optional || f.Required {
				return nil, p.errf("syntax", "map fields cannot have a label")
			}
			f.IsMap, f.MapKey, f.MapValue = true, k, v
		}
	}
	if !f.IsMap {
		// Like protoc's ParseType: a leading scalar type keyword (or "group") IS the type, so
		// `string.Config x = 1;` is a syntax error, not a reference to a package called "string".
		_, scalar := scalarTypes[p.tok.text]
		switch {
		case p.isIdent("group"):
			if dot, err := p.nextIsSym("."); err != nil {
				return nil, err
			} else if dot {
				return nil, p.errf("syntax", "keyword \"group\" cannot start a type name")
			}
			return nil, p.unsupported("groups")
		case p.tok.kind == tIdent && scalar:
			f.TypeName = p.tok.text
			if err := p.advance(); err != nil {
				return nil, err
			}
		default:
			tn, err := p.dotted(true)
			if err != nil {
				return nil, err
			}
			f.TypeName = tn
		}
	}
	n, err := p.ident()
	if err != nil {
		return nil, err
	}
	f.Name = n
	if err := p.expectSym("="); err != nil {
		return nil, err
	}
	num, err := p.signedInt("field number")
	if err != nil {
		return nil, err
	}
	f.Number = num
	if f.Options, err = p.bracketOptions(); err != nil {
		return nil, err
	}
	return f, p.expectSym(";")
}

func (p *parser) oneof(m *Message) error {
	o := &Oneof{Line: p.tok.line}
	if err := p.advance(); err != nil {
		return err
	}
	n, err := p.ident()
	if err != nil {
		return err
	}
	o.Name = n
	if err := p.expectSym("{"); err != nil {
		return err
	}
	idx := len(m.Oneofs)
	m.Oneofs = append(m.Oneofs, o)
	for !p.isSym("}") {
		switch {
		case p.tok.kind == tEOF:
			return p.errf("syntax", "unexpected end of file in oneof %s", o.Name)
		case p.isSym(";"):
			if err := p.advance(); err != nil {
				return err
			}
			continue
		case p.isIdent("option"):
			op, err := p.optionStmt()
			if err != nil {
				return err
			}
			o.Options = append(o.Options, op)
			continue
		case p.isIdent("group"):
			return p.unsupported("groups")
		case p.isIdent("repeated") || p.isIdent("optional") || p.isIdent("required"):
			return p.errf("syntax", "fields in oneofs must not have labels (%s)", p.tok.text)
		}
		f, err := p.field(false)
		if err != nil {
			return err
		}
		if f.IsMap {
			return &Error{File: p.lx.file, Line: f.Line, Col: f.Col, Kind: "syntax", Msg: "map fields are not allowed in oneofs"}
		}
		f.Oneof = idx
		m.Fields = append(m.Fields, f)
	}
	return p.advance()
}

func (p *parser) enum() (*Enum, error) {
	e := &Enum{Line: p.tok.line, Col: p.tok.col}
	if err := p.advance(); err != nil {
		return nil, err
	}
	n, err := p.ident()
	if err != nil {
		return nil, err
	}
	e.Name = n
	if err := p.expectSym("{"); err != nil {
		return nil, err
	}
	for !p.isSym("}") {
		switch {
		case p.tok.kind == tEOF:
			return nil, p.errf("syntax", "unexpected end of file in enum %s", e.Name)
		case p.isSym(";"):
			if err := p.advance(); err != nil {
				return nil, err
			}
			continue
		case p.isIdent("option"):
			o, err := p.optionStmt()
			if err != nil {
				return nil, err
			}
			e.Options = append(e.Options, o)
			continue
		case p.isIdent("reserved"):
			rs, names, err := p.reserved()
			if err != nil {
				return nil, err
			}
			e.Reserved = append(e.Reserved, rs...)
			e.ReservedNames = append(e.ReservedNames, names...)
			continue
		}
		v := &EnumValue{Line: p.tok.line, Col: p.tok.col}
		if v.Name, err = p.ident(); err != nil {
			return nil, err
		}
		if err := p.expectSym("="); err != nil {
			return nil, err
		}
		if v.Number, err = p.signedInt("enum value"); err != nil {
			return nil, err
		}
		if v.Options, err = p.bracketOptions(); err != nil {
			return nil, err
		}
		if err := p.expectSym(";"); err != nil {
			return nil, err
		}
		e.Values = append(e.Values, v)
	}
	return e, p.advance()
}

func (p *parser) extend() (*Extend, error) {
	x := &Extend{Line: p.tok.line}
	if err := p.advance(); err != nil {
		return nil, err
	}
	n, err := p.dotted(true)
	if err != nil {
		return nil, err
	}
	x.Extendee = n
	if err := p.expectSym("{"); err != nil {
		return nil, err
	}
	for !p.isSym("}") {
		if p.tok.kind == tEOF {
			return nil, p.errf("syntax", "unexpected end of file in extend %s", x.Extendee)
		}
		if p.isSym(";") {
			if err := p.advance(); err != nil {
				return nil, err
			}
			continue
		}
		if p.isIdent("group") {
			return nil, p.unsupported("groups")
		}
		f, err := p.field(true)
		if err != nil {
			return nil, err
		}
		if f.IsMap {
			return nil, &Error{File: p.lx.file, Line: f.Line, Col: f.Col, Kind: "syntax", Msg: "map fields are not allowed as extensions"}
		}
		x.Fields = append(x.Fields, f)
	}
	return x, p.advance()
}
