package protoparse

import (
	"errors"
	"os"
	"path/filepath"
	"strings"
	"testing"

	"google.golang.org/protobuf/proto"
	"google.golang.org/protobuf/reflect/protodesc"
	"google.golang.org/protobuf/reflect/protoregistry"
	"google.golang.org/protobuf/types/descriptorpb"

	_ "github.com/openconfig/ygot/proto/yext"
	_ "github.com/openconfig/ygot/proto/ywrapper"
)

func repo() string {
	if r := os.Getenv("VERIF_REPO"); r != "" {
		return r
	}
	return "/repo"
}

var alias = map[string]string{
	"github.com/openconfig/ygot/proto/yext/yext.proto":         "yext.proto",
	"github.com/openconfig/ygot/proto/ywrapper/ywrapper.proto": "ywrapper.proto",
}

func stripJSON(fdp *descriptorpb.FileDescriptorProto) {
	var msg func(m *descriptorpb.DescriptorProto)
	msg = func(m *descriptorpb.DescriptorProto) {
		for _, f := range m.Field {
			f.JsonName = nil
		}
		for _, x := range m.Extension {
			x.JsonName = nil
		}
		for _, c := range m.NestedType {
			msg(c)
		}
	}
	for _, m := range fdp.MessageType {
		msg(m)
	}
	for _, x := range fdp.Extension {
		x.JsonName = nil
	}
	fdp.SourceCodeInfo = nil
}

// The parser reproduces the descriptors protoc produced for ygot's own hand-written protos.
func TestAgainstProtocDescriptors(t *testing.T) {
	for _, c := range []struct{ path, reg string }{
		{"proto/yext/yext.proto", "yext.proto"},
		{"proto/ywrapper/ywrapper.proto", "ywrapper.proto"},
	} {
		src, err := os.ReadFile(filepath.Join(repo(), c.path))
		if err != nil {
			t.Fatal(err)
		}
		f, err := Parse(c.reg, string(src))
		if err != nil {
			t.Fatalf("%s: %v", c.path, err)
		}
		l, err := Link([]*File{f}, GlobalExtern(nil))
		if err != nil {
			t.Fatalf("%s: %v", c.path, err)
		}
		got := l.Protos[c.reg]
		fd, err := protoregistry.GlobalFiles.FindFileByPath(c.reg)
		if err != nil {
			t.Fatal(err)
		}
		want := protodesc.ToFileDescriptorProto(fd)
		stripJSON(got)
		stripJSON(want)
		if !proto.Equal(got, want) {
			t.Errorf("%s: descriptors differ\n got: %v\nwant: %v", c.path, got, want)
		}
	}
}

func TestDemoProtos(t *testing.T) {
	root := filepath.Join(repo(), "demo/protobuf_getting_started/ribproto")
	var files []*File
	filepath.Walk(root, func(p string, info os.FileInfo, err error) error {
		if err == nil && strings.HasSuffix(p, ".proto") {
			src, _ := os.ReadFile(p)
			rel, _ := filepath.Rel(root, p)
			// the demo was generated with -base_import_path
			f, err := Parse("github.com/openconfig/ygot/demo/protobuf_getting_started/ribproto/"+rel, string(src))
			if err != nil {
				t.Fatalf("%s: %v", p, err)
			}
			files = append(files, f)
		}
		return nil
	})
	if len(files) < 3 {
		t.Fatalf("demo protos not found under %s", root)
	}
	al := map[string]string{}
	for k, v := range alias {
		al[k] = v
	}
	// the demo was generated with relative ywrapper/yext paths
	for _, f := range files {
		for _, im := range f.Imports {
			if strings.HasSuffix(im.Path, "/yext.proto") {
				al[im.Path] = "yext.proto"
			}
			if strings.HasSuffix(im.Path, "/ywrapper.proto") {
				al[im.Path] = "ywrapper.proto"
			}
		}
	}
	l, err := Link(files, GlobalExtern(al))
	if err != nil {
		t.Fatal(err)
	}
	if l.Registry.NumFiles() < 5 {
		t.Errorf("registry has %d files", l.Registry.NumFiles())
	}
}

const hdr = `syntax = "proto3"; package p.q; import "github.com/openconfig/ygot/proto/yext/yext.proto"; import "github.com/openconfig/ygot/proto/ywrapper/ywrapper.proto";
`

func link1(src string) error {
	f, err := Parse("x.proto", src)
	if err != nil {
		return err
	}
	_, err = Link([]*File{f}, GlobalExtern(alias))
	return err
}

func TestAcceptsAndRejects(t *testing.T) {
	cases := []struct {
		name, src, kind string // kind "" = valid
	}{
		{"plain", hdr + `message M { ywrapper.StringValue a = 5 [(yext.schemapath) = "/a"]; repeated uint64 b = 6 [(yext.leaflist) = true,(yext.schemapath) = "/b|/c"]; }`, ""},
		{"nested+oneof+enum", hdr + `message M { message N { } enum E { E_UNSET = 0; E_A = 1 [(yext.yang_name) = "a"]; } oneof u { sint64 u_sint64 = 7; string u_string = 8; } N n = 9; E e = 10; map<string, N> mm = 11; optional bool ob = 12; reserved 100 to 200, 300; reserved "zz"; }`, ""},
		{"absolute and dotted refs", hdr + `message M { .p.q.M a = 1; p.q.M b = 2; q.M c = 3; M d = 4; }`, ""},
		{"comments", hdr + "/* block */ message M { // line\n string a = 1; /* x */ }", ""},
		{"keyword field names", hdr + `message M { string message = 1; string option = 2; string enum = 3; string package = 4; string repeated = 5; }`, ""},
		{"negative enum", hdr + `enum E { E_Z = 0; E_N = -5; E_MAX = 2147483647; E_MIN = -2147483648; }`, ""},
		{"hex and octal", hdr + `message M { string a = 0x10; string b = 017; }`, ""},

		{"dup number", hdr + `message M { string a = 5; string b = 5; }`, "duplicate-number"},
		{"dup number in oneof", hdr + `message M { string a = 5; oneof o { string b = 5; } }`, "duplicate-number"},
		{"dup name", hdr + `message M { string a = 5; uint64 a = 6; }`, "duplicate-symbol"},
		{"field vs nested message", hdr + `message M { message a { } string a = 5; }`, "duplicate-symbol"},
		{"field vs oneof", hdr + `message M { oneof a { string b = 1; } string a = 5; }`, "duplicate-symbol"},
		{"enum vs message", hdr + `message M { message A { } enum A { Z = 0; } }`, "duplicate-symbol"},
		{"enum value sibling scope", hdr + `message M { enum A { X = 0; } enum B { X = 0; } }`, "duplicate-symbol"},
		{"enum value dup name", hdr + `enum A { X = 0; X = 1; }`, "duplicate-symbol"},
		{"enum value dup number", hdr + `enum A { X = 0; Y = 1; Z = 1; }`, "duplicate-number"},
		{"enum first nonzero", hdr + `enum A { X = 1; }`, "syntax"},
		{"enum overflow", hdr + `enum A { X = 0; Y = 2147483648; }`, "range"},
		{"empty enum", hdr + `enum A { }`, "syntax"},
		{"number zero", hdr + `message M { string a = 0; }`, "range"},
		{"number too big", hdr + `message M { string a = 536870912; }`, "range"},
		{"number reserved low", hdr + `message M { string a = 19000; }`, "range"},
		{"number reserved high", hdr + `message M { string a = 19999; }`, "range"},
		{"number huge", hdr + `message M { string a = 99999999999999999999; }`, "range"},
		{"unknown type", hdr + `message M { Nope a = 1; }`, "unresolved"},
		{"shadowed first component", hdr + `message M { message p { } p.q.M a = 1; }`, "unresolved"},
		{"not imported", `syntax = "proto3"; package p; message M { ywrapper.StringValue a = 1; }`, "unresolved"},
		{"option ext not imported", `syntax = "proto3"; package p; message M { string a = 1 [(yext.schemapath) = "/a"]; }`, "unresolved"},
		{"option wrong target", hdr + `enum E { Z = 0 [(yext.schemapath) = "/a"]; }`, "option"},
		{"option wrong type", hdr + `message M { string a = 1 [(yext.leaflist) = "yes"]; }`, "option"},
		{"option twice", hdr + `message M { string a = 1 [(yext.schemapath) = "/a", (yext.schemapath) = "/b"]; }`, "option"},
		{"unknown option", hdr + `message M { string a = 1 [nonsense = true]; }`, "option"},
		{"json conflict", hdr + `message M { string a_b = 1; string a_b_ = 2; }`, "json-name"},
		{"json conflict camel", hdr + `message M { string a_b = 1; string aB = 2; }`, "json-name"},
		{"field is value not type", hdr + `message M { enum E { Z = 0; } Z a = 1; }`, "unresolved"},
		{"missing semicolon", hdr + `message M { string a = 1 }`, "syntax"},
		{"repeated in oneof", hdr + `message M { oneof o { repeated string a = 1; } }`, "syntax"},
		{"empty oneof", hdr + `message M { oneof o { } }`, "syntax"},
		{"required in proto3", hdr + `message M { required string a = 1; }`, "syntax"},
		{"missing import file", `syntax = "proto3"; import "nope.proto";`, "import"},
		{"unterminated", hdr + `message M { string a = 1;`, "syntax"},
		{"keyword enum leads a type", hdr + `message M { enum.Config c = 1; }`, "syntax"},
		{"keyword message leads a type", hdr + `message M { message.Config c = 1; }`, "syntax"},
		{"keyword option leads a type", hdr + `message M { option.Config c = 1; }`, "syntax"},
		{"keyword oneof leads a type", hdr + `message M { oneof.Config c = 1; }`, "syntax"},
		{"keyword reserved leads a type", hdr + `message M { reserved.Config c = 1; }`, "syntax"},
		{"keyword extensions leads a type", hdr + `message M { extensions.Config c = 1; }`, "syntax"},
		{"keyword extend leads a type", hdr + `message M { extend.Config c = 1; }`, "syntax"},
		{"keyword group leads a type", hdr + `message M { group.Config c = 1; }`, "syntax"},
		{"scalar leads a type", hdr + `message M { string.Config c = 1; }`, "syntax"},
		{"label leads a type", hdr + `message M { optional.Config c = 1; }`, "unresolved"},
		{"keywords after repeated", hdr + `message M { repeated enum.Config c = 1; }`, "unresolved"},
		{"bad ident", hdr + `message M { string a-b = 1; }`, "syntax"},
		{"ident starting with digit", hdr + `message M { string 1a = 1; }`, "syntax"},
		{"package vs message", `syntax = "proto3"; package p.q; message q { }` + "\n", ""}, // p.q.q is fine
	}
	for _, c := range cases {
		err := link1(c.src)
		var pe *Error
		switch {
		case c.kind == "" && err != nil:
			t.Errorf("%s: valid input rejected: %v", c.name, err)
		case c.kind != "" && err == nil:
			t.Errorf("%s: invalid input accepted", c.name)
		case c.kind != "" && (!errors.As(err, &pe) || pe.Kind != c.kind):
			t.Errorf("%s: want error kind %s, got %v", c.name, c.kind, err)
		}
	}
}

func TestCrossFile(t *testing.T) {
	a, err := Parse("a/a.proto", `syntax = "proto3"; package r.a; import "b/b.proto"; message A { r.b.B b = 1; b.B c = 2; }`)
	if err != nil {
		t.Fatal(err)
	}
	b, err := Parse("b/b.proto", `syntax = "proto3"; package r.b; message B { }`)
	if err != nil {
		t.Fatal(err)
	}
	if _, err := Link([]*File{a, b}, nil); err != nil {
		t.Errorf("valid two-file set rejected: %v", err)
	}
	// import cycle
	b2, _ := Parse("b/b.proto", `syntax = "proto3"; package r.b; import "a/a.proto"; message B { }`)
	if _, err := Link([]*File{a, b2}, nil); err == nil || !strings.Contains(err.Error(), "cycle") {
		t.Errorf("import cycle accepted: %v", err)
	}
	// same full name in two files
	c, _ := Parse("c.proto", `syntax = "proto3"; package r.b; message B { }`)
	if _, err := Link([]*File{a, b, c}, nil); err == nil {
		t.Errorf("symbol defined in two files accepted")
	}
	// package name that is also a message of the parent package
	d, _ := Parse("d.proto", `syntax = "proto3"; package r; message b { }`)
	if _, err := Link([]*File{a, b, d}, nil); err == nil {
		t.Errorf("message r.b next to package r.b accepted")
	}
	// unsupported constructs are flagged as such
	_, err = Parse("s.proto", `syntax = "proto3"; service S { }`)
	if !errors.Is(err, ErrUnsupported) {
		t.Errorf("service: want ErrUnsupported, got %v", err)
	}
}
