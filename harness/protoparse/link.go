package protoparse

import (
	"fmt"
	"math"
	"sort"
	"strings"

	"google.golang.org/protobuf/proto"
	"google.golang.org/protobuf/reflect/protodesc"
	"google.golang.org/protobuf/reflect/protoreflect"
	"google.golang.org/protobuf/reflect/protoregistry"
	"google.golang.org/protobuf/types/descriptorpb"
)

// Limits of the protobuf language (descriptor.cc / protowire).
const (
	MaxFieldNumber      = 1<<29 - 1 // 536870911
	FirstReservedNumber = 19000
	LastReservedNumber  = 19999
)

type symKind int

const (
	symPackage symKind = iota + 1
	symMessage
	symEnum
	symEnumValue
	symField
	symOneof
	symExtension
)

func (k symKind) String() string {
	return [...]string{"?", "package", "message", "enum", "enum value", "field", "oneof", "extension"}[k]
}
func (k symKind) aggregate() bool { return k == symPackage || k == symMessage || k == symEnum }
func (k symKind) isType() bool    { return k == symMessage || k == symEnum }

type symbol struct {
	kind symKind
	file string
	line int
}

// symtab maps full names (no leading dot) to symbols.
type symtab map[string]symbol

// Extern supplies files that are imported but not part of the parsed set (ywrapper.proto,
// yext.proto, google/protobuf/*.proto). It returns nil when the path is unknown. The returned
// descriptor must carry importPath as its name.
type Extern func(importPath string) *descriptorpb.FileDescriptorProto

// GlobalExtern resolves imports through protoregistry.GlobalFiles. alias maps an import path
// to the path under which the file is registered (ygot registers "yext.proto" and
// "ywrapper.proto", generated files import them with a directory prefix).
func GlobalExtern(alias map[string]string) Extern {
	return func(p string) *descriptorpb.FileDescriptorProto {
		reg := p
		if a, ok := alias[p]; ok {
			reg = a
		}
		fd, err := protoregistry.GlobalFiles.FindFileByPath(reg)
		if err != nil {
			return nil
		}
		fdp := protodesc.ToFileDescriptorProto(fd)
		fdp.Name = proto.String(p)
		return fdp
	}
}

// Linked is the result of Link.
type Linked struct {
	// Registry holds every linked file (parsed and extern) as validated descriptors.
	Registry *protoregistry.Files
	// Protos holds the descriptor protos of the parsed files by name.
	Protos map[string]*descriptorpb.FileDescriptorProto
	// Order is the dependency order in which the parsed files were linked.
	Order []string
}

type linker struct {
	files   map[string]*File
	extern  Extern
	reg     *protoregistry.Files
	syms    map[string]symtab // per file: symbols it defines (packages included)
	pubs    map[string][]string
	pool    symtab // all files
	state   map[string]int
	out     *Linked
	externs map[string]*descriptorpb.FileDescriptorProto
}

// Link applies protoc's semantic rules to the parsed files (which may import each other and
// extern files), converts them to descriptor protos and validates them with protodesc.NewFile.
// Any error means that the set is not a valid protobuf file set (or wraps ErrUnsupported).
func Link(files []*File, extern Extern) (*Linked, error) {
	l := &linker{files: map[string]*File{}, extern: extern, reg: new(protoregistry.Files), syms: map[string]symtab{},
		pubs: map[string][]string{}, pool: symtab{}, state: map[string]int{}, externs: map[string]*descriptorpb.FileDescriptorProto{},
		out: &Linked{Protos: map[string]*descriptorpb.FileDescriptorProto{}}}
	l.out.Registry = l.reg
	var names []string
	for _, f := range files {
		if _, dup := l.files[f.Name]; dup {
			return nil, &Error{File: f.Name, Kind: "import", Msg: "two files with the same name"}
		}
		l.files[f.Name] = f
		names = append(names, f.Name)
	}
	sort.Strings(names)
	for _, n := range names {
		if err := l.linkFile(n, nil); err != nil {
			return nil, err
		}
	}
	return l.out, nil
}

func (l *linker) linkFile(name string, stack []string) error {
	switch l.state[name] {
	case 2:
		return nil
	case 1:
		return &Error{File: name, Kind: "import", Msg: "import cycle: " + strings.Join(append(stack, name), " -> ")}
	}
	l.state[name] = 1
	stack = append(stack, name)
	f, parsed := l.files[name]
	if !parsed {
		if err := l.linkExtern(name, stack); err != nil {
			return err
		}
		l.state[name] = 2
		return nil
	}
	seen := map[string]bool{}
	for _, im := range f.Imports {
		if seen[im.Path] {
			return &Error{File: name, Line: im.Line, Kind: "import", Msg: fmt.Sprintf("import %q was listed twice", im.Path)}
		}
		seen[im.Path] = true
		if im.Path == name {
			return &Error{File: name, Line: im.Line, Kind: "import", Msg: "file imports itself"}
		}
		if _, ok := l.files[im.Path]; !ok {
			if l.extern == nil || l.externFile(im.Path) == nil {
				return &Error{File: name, Line: im.Line, Kind: "import", Msg: fmt.Sprintf("import %q not found", im.Path)}
			}
		}
		if err := l.linkFile(im.Path, stack); err != nil {
			return err
		}
		if im.Public {
			l.pubs[name] = append(l.pubs[name], im.Path)
		}
	}
	own, err := collectSymbols(f)
	if err != nil {
		return err
	}
	if err := l.addToPool(name, own); err != nil {
		return err
	}
	l.syms[name] = own
	vis := l.visible(name, f)
	fdp, err := l.build(f, vis)
	if err != nil {
		return err
	}
	fd, err := protodesc.NewFile(fdp, l.reg)
	if err != nil {
		return &Error{File: name, Kind: "protodesc", Msg: err.Error()}
	}
	if err := l.reg.RegisterFile(fd); err != nil {
		return &Error{File: name, Kind: "protodesc", Msg: err.Error()}
	}
	l.out.Protos[name] = fdp
	l.out.Order = append(l.out.Order, name)
	l.state[name] = 2
	return nil
}

func (l *linker) externFile(path string) *descriptorpb.FileDescriptorProto {
	if fdp, ok := l.externs[path]; ok {
		return fdp
	}
	var fdp *descriptorpb.FileDescriptorProto
	if l.extern != nil {
		fdp = l.extern(path)
	}
	l.externs[path] = fdp
	return fdp
}

func (l *linker) linkExtern(name string, stack []string) error {
	fdp := l.externFile(name)
	if fdp == nil {
		return &Error{File: name, Kind: "import", Msg: "file not found"}
	}
	for i, d := range fdp.GetDependency() {
		if err := l.linkFile(d, stack); err != nil {
			return err
		}
		for _, p := range fdp.GetPublicDependency() {
			if int(p) == i {
				l.pubs[name] = append(l.pubs[name], d)
			}
		}
	}
	own := collectSymbolsFDP(fdp)
	if err := l.addToPool(name, own); err != nil {
		return err
	}
	l.syms[name] = own
	fd, err := protodesc.NewFile(fdp, l.reg)
	if err != nil {
		return fmt.Errorf("extern file %s does not validate (%v): %w", name, err, ErrUnsupported)
	}
	if err := l.reg.RegisterFile(fd); err != nil {
		return &Error{File: name, Kind: "protodesc", Msg: err.Error()}
	}
	return nil
}

// addToPool enforces that a full name is defined once in the whole file set, and that
// package names are not also used for other things (descriptor.cc AddSymbol / AddPackage).
func (l *linker) addToPool(file string, own symtab) error {
	names := make([]string, 0, len(own))
	for n := range own {
		names = append(names, n)
	}
	sort.Strings(names)
	for _, n := range names {
		s := own[n]
		if old, ok := l.pool[n]; ok {
			if old.kind == symPackage && s.kind == symPackage {
				continue
			}
			return &Error{File: file, Line: s.line, Kind: "duplicate-symbol",
				Msg: fmt.Sprintf("%q (%v) is already defined as %v in file %q", n, s.kind, old.kind, old.file)}
		}
		l.pool[n] = s
	}
	return nil
}

// visible returns the symbols file f may refer to: its own, those of its direct imports and of
// their transitive public imports.
func (l *linker) visible(name string, f *File) symtab {
	vis := symtab{}
	add := func(t symtab) {
		for n, s := range t {
			if old, ok := vis[n]; ok && old.kind != symPackage {
				continue
			}
			vis[n] = s
		}
	}
	add(l.syms[name])
	done := map[string]bool{}
	var rec func(p string)
	rec = func(p string) {
		if done[p] {
			return
		}
		done[p] = true
		add(l.syms[p])
		for _, q := range l.pubs[p] {
			rec(q)
		}
	}
	for _, im := range f.Imports {
		rec(im.Path)
	}
	return vis
}

func dup(file string, line int, n string, k symKind, old symbol) error {
	return &Error{File: file, Line: line, Kind: "duplicate-symbol",
		Msg: fmt.Sprintf("%q (%v) is already defined as %v at line %d", n, k, old.kind, old.line)}
}

// collectSymbols gathers the symbols a parsed file defines and enforces protoc's uniqueness
// rule: nested messages, enums, fields, oneofs and extensions share their message's scope;
// enum values live in the scope that contains the enum.
func collectSymbols(f *File) (symtab, error) {
	t := symtab{}
	add := func(n string, k symKind, line int) error {
		if old, ok := t[n]; ok {
			return dup(f.Name, line, n, k, old)
		}
		t[n] = symbol{k, f.Name, line}
		return nil
	}
	if f.Package != "" {
		parts := strings.Split(f.Package, ".")
		for i := range parts {
			t[strings.Join(parts[:i+1], ".")] = symbol{symPackage, f.Name, 0}
		}
	}
	enum := func(scope string, e *Enum) error {
		if err := add(join(scope, e.Name), symEnum, e.Line); err != nil {
			return err
		}
		for _, v := range e.Values {
			if err := add(join(scope, v.Name), symEnumValue, v.Line); err != nil {
				return err
			}
		}
		return nil
	}
	var msg func(scope string, m *Message) error
	exts := func(scope string, xs []*Extend) error {
		for _, x := range xs {
			for _, xf := range x.Fields {
				if err := add(join(scope, xf.Name), symExtension, xf.Line); err != nil {
					return err
				}
			}
		}
		return nil
	}
	msg = func(scope string, m *Message) error {
		full := join(scope, m.Name)
		if err := add(full, symMessage, m.Line); err != nil {
			return err
		}
		for _, fl := range m.Fields {
			if err := add(join(full, fl.Name), symField, fl.Line); err != nil {
				return err
			}
			if fl.IsMap {
				if err := add(join(full, mapEntryName(fl.Name)), symMessage, fl.Line); err != nil {
					return err
				}
			}
		}
		for _, o := range m.Oneofs {
			if err := add(join(full, o.Name), symOneof, o.Line); err != nil {
				return err
			}
		}
		for _, c := range m.Messages {
			if err := msg(full, c); err != nil {
				return err
			}
		}
		for _, e := range m.Enums {
			if err := enum(full, e); err != nil {
				return err
			}
		}
		return exts(full, m.Extends)
	}
	for _, m := range f.Messages {
		if err := msg(f.Package, m); err != nil {
			return nil, err
		}
	}
	for _, e := range f.Enums {
		if err := enum(f.Package, e); err != nil {
			return nil, err
		}
	}
	if err := exts(f.Package, f.Extends); err != nil {
		return nil, err
	}
	return t, nil
}

func collectSymbolsFDP(fdp *descriptorpb.FileDescriptorProto) symtab {
	t := symtab{}
	file := fdp.GetName()
	pkg := fdp.GetPackage()
	if pkg != "" {
		parts := strings.Split(pkg, ".")
		for i := range parts {
			t[strings.Join(parts[:i+1], ".")] = symbol{symPackage, file, 0}
		}
	}
	enum := func(scope string, e *descriptorpb.EnumDescriptorProto) {
		t[join(scope, e.GetName())] = symbol{symEnum, file, 0}
		for _, v := range e.GetValue() {
			t[join(scope, v.GetName())] = symbol{symEnumValue, file, 0}
		}
	}
	var msg func(scope string, m *descriptorpb.DescriptorProto)
	msg = func(scope string, m *descriptorpb.DescriptorProto) {
		full := join(scope, m.GetName())
		t[full] = symbol{symMessage, file, 0}
		for _, f := range m.GetField() {
			t[join(full, f.GetName())] = symbol{symField, file, 0}
		}
		for _, o := range m.GetOneofDecl() {
			t[join(full, o.GetName())] = symbol{symOneof, file, 0}
		}
		for _, c := range m.GetNestedType() {
			msg(full, c)
		}
		for _, e := range m.GetEnumType() {
			enum(full, e)
		}
		for _, x := range m.GetExtension() {
			t[join(full, x.GetName())] = symbol{symExtension, file, 0}
		}
	}
	for _, m := range fdp.GetMessageType() {
		msg(pkg, m)
	}
	for _, e := range fdp.GetEnumType() {
		enum(pkg, e)
	}
	for _, x := range fdp.GetExtension() {
		t[join(pkg, x.GetName())] = symbol{symExtension, file, 0}
	}
	return t
}

// lookup implements DescriptorBuilder::LookupSymbolNoPlaceholder: name is resolved relative to
// the scope that contains the referring element; the innermost scope in which the FIRST
// component of name is defined wins, and the rest of the name must then resolve from there.
func lookup(vis symtab, name, scope string, typesOnly bool) (string, symbol, bool) {
	if strings.HasPrefix(name, ".") {
		s, ok := vis[name[1:]]
		return name[1:], s, ok
	}
	first := name
	if i := strings.IndexByte(name, '.'); i >= 0 {
		first = name[:i]
	}
	for {
		cand := join(scope, first)
		if s, ok := vis[cand]; ok {
			if len(first) < len(name) {
				if s.kind.aggregate() {
					full := join(scope, name)
					s2, ok2 := vis[full]
					return full, s2, ok2
				}
			} else if !typesOnly || s.kind.isType() {
				return cand, s, true
			}
		}
		if scope == "" {
			return "", symbol{}, false
		}
		if i := strings.LastIndexByte(scope, '.'); i >= 0 {
			scope = scope[:i]
		} else {
			scope = ""
		}
	}
}

var scalarTypes = map[string]descriptorpb.FieldDescriptorProto_Type{
	"double": descriptorpb.FieldDescriptorProto_TYPE_DOUBLE, "float": descriptorpb.FieldDescriptorProto_TYPE_FLOAT,
	"int32": descriptorpb.FieldDescriptorProto_TYPE_INT32, "int64": descriptorpb.FieldDescriptorProto_TYPE_INT64,
	"uint32": descriptorpb.FieldDescriptorProto_TYPE_UINT32, "uint64": descriptorpb.FieldDescriptorProto_TYPE_UINT64,
	"sint32": descriptorpb.FieldDescriptorProto_TYPE_SINT32, "sint64": descriptorpb.FieldDescriptorProto_TYPE_SINT64,
	"fixed32": descriptorpb.FieldDescriptorProto_TYPE_FIXED32, "fixed64": descriptorpb.FieldDescriptorProto_TYPE_FIXED64,
	"sfixed32": descriptorpb.FieldDescriptorProto_TYPE_SFIXED32, "sfixed64": descriptorpb.FieldDescriptorProto_TYPE_SFIXED64,
	"bool": descriptorpb.FieldDescriptorProto_TYPE_BOOL, "string": descriptorpb.FieldDescriptorProto_TYPE_STRING,
	"bytes": descriptorpb.FieldDescriptorProto_TYPE_BYTES,
}

// JSONName is protoc's ToJsonName: underscores are dropped and the following letter upper-cased.
func JSONName(s string) string {
	var b []byte
	up := false
	for i := 0; i < len(s); i++ {
		c := s[i]
		switch {
		case c == '_':
			up = true
		case up:
			if c >= 'a' && c <= 'z' {
				c -= 'a' - 'A'
			}
			b = append(b, c)
			up = false
		default:
			b = append(b, c)
		}
	}
	return string(b)
}

func mapEntryName(field string) string {
	// descriptor.cc MapEntryName: CamelCase + "Entry"
	var b []byte
	up := true
	for i := 0; i < len(field); i++ {
		c := field[i]
		if c == '_' {
			up = true
			continue
		}
		if up && c >= 'a' && c <= 'z' {
			c -= 'a' - 'A'
		}
		up = false
		b = append(b, c)
	}
	return string(b) + "Entry"
}

type builder struct {
	l   *linker
	f   *File
	vis symtab
}

func (b *builder) errf(line, col int, kind, format string, a ...interface{}) error {
	return &Error{File: b.f.Name, Line: line, Col: col, Kind: kind, Msg: fmt.Sprintf(format, a...)}
}

func (l *linker) build(f *File, vis symtab) (*descriptorpb.FileDescriptorProto, error) {
	b := &builder{l: l, f: f, vis: vis}
	fdp := &descriptorpb.FileDescriptorProto{Name: proto.String(f.Name)}
	if f.Package != "" {
		fdp.Package = proto.String(f.Package)
	}
	if f.Syntax == "proto3" {
		fdp.Syntax = proto.String("proto3")
	}
	for i, im := range f.Imports {
		fdp.Dependency = append(fdp.Dependency, im.Path)
		if im.Public {
			fdp.PublicDependency = append(fdp.PublicDependency, int32(i))
		}
		if im.Weak {
			fdp.WeakDependency = append(fdp.WeakDependency, int32(i))
		}
	}
	if len(f.Options) > 0 {
		fdp.Options = &descriptorpb.FileOptions{}
		for _, o := range f.Options {
			if err := b.setOption(fdp.Options, o, f.Package); err != nil {
				return nil, err
			}
		}
	}
	for _, m := range f.Messages {
		dp, err := b.message(f.Package, m)
		if err != nil {
			return nil, err
		}
		fdp.MessageType = append(fdp.MessageType, dp)
	}
	for _, e := range f.Enums {
		ep, err := b.enum(f.Package, e)
		if err != nil {
			return nil, err
		}
		fdp.EnumType = append(fdp.EnumType, ep)
	}
	for _, x := range f.Extends {
		xs, err := b.extend(f.Package, x)
		if err != nil {
			return nil, err
		}
		fdp.Extension = append(fdp.Extension, xs...)
	}
	return fdp, nil
}

func (b *builder) checkNumber(fl *Field) error {
	switch {
	case fl.Number < 1:
		return b.errf(fl.Line, fl.Col, "range", "field %q: field numbers must be positive integers, have %d", fl.Name, fl.Number)
	case fl.Number > MaxFieldNumber:
		return b.errf(fl.Line, fl.Col, "range", "field %q: field numbers cannot be greater than %d, have %d", fl.Name, MaxFieldNumber, fl.Number)
	case fl.Number >= FirstReservedNumber && fl.Number <= LastReservedNumber:
		return b.errf(fl.Line, fl.Col, "range", "field %q: field numbers %d through %d are reserved for the protocol buffer library implementation, have %d",
			fl.Name, FirstReservedNumber, LastReservedNumber, fl.Number)
	}
	return nil
}

// typeRef resolves a written type name in the scope of a message (scope = the message's full
// name, or the package for file-level extensions).
func (b *builder) typeRef(written, scope string, line, col int) (descriptorpb.FieldDescriptorProto_Type, string, error) {
	if t, ok := scalarTypes[written]; ok {
		return t, "", nil
	}
	full, s, ok := lookup(b.vis, written, scope, true)
	if !ok {
		hint := ""
		if ps, inPool := b.l.pool[strings.TrimPrefix(written, ".")]; inPool {
			hint = fmt.Sprintf(" (a symbol of that full name exists in %q, which is not imported or is shadowed by a nearer %q)", ps.file, strings.SplitN(written, ".", 2)[0])
		} else if full != "" {
			hint = fmt.Sprintf(" (the first component resolves in an inner scope, so protoc looks for %q only)", full)
		}
		return 0, "", b.errf(line, col, "unresolved", "type %q is not defined in scope %q%s", written, scope, hint)
	}
	switch s.kind {
	case symMessage:
		return descriptorpb.FieldDescriptorProto_TYPE_MESSAGE, "." + full, nil
	case symEnum:
		return descriptorpb.FieldDescriptorProto_TYPE_ENUM, "." + full, nil
	}
	return 0, "", b.errf(line, col, "unresolved", "%q resolves to %q, which is a %v and not a type", written, full, s.kind)
}

func (b *builder) field(scope string, fl *Field, proto3 bool) (*descriptorpb.FieldDescriptorProto, error) {
	if err := b.checkNumber(fl); err != nil {
		return nil, err
	}
	fp := &descriptorpb.FieldDescriptorProto{Name: proto.String(fl.Name), Number: proto.Int32(int32(fl.Number))}
	switch {
	case fl.Repeated:
		fp.Label = descriptorpb.FieldDescriptorProto_LABEL_REPEATED.Enum()
	case fl.Required:
		fp.Label = descriptorpb.FieldDescriptorProto_LABEL_REQUIRED.Enum()
	default:
		fp.Label = descriptorpb.FieldDescriptorProto_LABEL_OPTIONAL.Enum()
	}
	t, tn, err := b.typeRef(fl.TypeName, scope, fl.Line, fl.Col)
	if err != nil {
		return nil, err
	}
	fp.Type = t.Enum()
	if tn != "" {
		fp.TypeName = proto.String(tn)
	}
	fp.JsonName = proto.String(JSONName(fl.Name))
	for _, o := range fl.Options {
		switch o.Name {
		case "json_name":
			if o.Value.Kind != ConstString {
				return nil, b.errf(o.Line, o.Col, "option", "json_name needs a string")
			}
			fp.JsonName = proto.String(o.Value.Str)
			continue
		case "default":
			if proto3 {
				return nil, b.errf(o.Line, o.Col, "option", "explicit default values are not allowed in proto3")
			}
			return nil, fmt.Errorf("%s:%d: field default values: %w", b.f.Name, o.Line, ErrUnsupported)
		}
		if fp.Options == nil {
			fp.Options = &descriptorpb.FieldOptions{}
		}
		if err := b.setOption(fp.Options, o, scope); err != nil {
			return nil, err
		}
	}
	return fp, nil
}

func (b *builder) message(scope string, m *Message) (*descriptorpb.DescriptorProto, error) {
	full := join(scope, m.Name)
	proto3 := b.f.Syntax == "proto3"
	dp := &descriptorpb.DescriptorProto{Name: proto.String(m.Name)}
	for _, o := range m.Oneofs {
		od := &descriptorpb.OneofDescriptorProto{Name: proto.String(o.Name)}
		for _, op := range o.Options {
			if od.Options == nil {
				od.Options = &descriptorpb.OneofOptions{}
			}
			if err := b.setOption(od.Options, op, full); err != nil {
				return nil, err
			}
		}
		dp.OneofDecl = append(dp.OneofDecl, od)
	}
	members := make([]int, len(m.Oneofs))
	jsonNames := map[string]*Field{}
	numbers := map[int64]*Field{}
	for _, fl := range m.Fields {
		if other, ok := numbers[fl.Number]; ok {
			return nil, b.errf(fl.Line, fl.Col, "duplicate-number", "field number %d has already been used in %q by field %q (now: %q)", fl.Number, full, other.Name, fl.Name)
		}
		numbers[fl.Number] = fl
		var fp *descriptorpb.FieldDescriptorProto
		var err error
		if fl.IsMap {
			fp, err = b.mapField(full, fl, dp, proto3)
		} else {
			fp, err = b.field(full, fl, proto3)
		}
		if err != nil {
			return nil, err
		}
		if proto3 && fl.Required {
			return nil, b.errf(fl.Line, fl.Col, "syntax", "required fields are not allowed in proto3")
		}
		if fl.Oneof >= 0 {
			fp.OneofIndex = proto.Int32(int32(fl.Oneof))
			members[fl.Oneof]++
		}
		// JSON names: every protoc version rejects two proto3 fields with the same default
		// camelCase JSON name (older ones use an even stricter rule).
		jn := JSONName(fl.Name)
		if other, ok := jsonNames[jn]; ok && proto3 {
			return nil, b.errf(fl.Line, fl.Col, "json-name", "the default JSON name %q of field %q conflicts with field %q in message %q; this is not allowed in proto3",
				jn, fl.Name, other.Name, full)
		}
		jsonNames[jn] = fl
		for _, r := range m.Reserved {
			if fl.Number >= r.Start && fl.Number <= r.End {
				return nil, b.errf(fl.Line, fl.Col, "range", "field %q uses reserved number %d", fl.Name, fl.Number)
			}
		}
		for _, rn := range m.ReservedNames {
			if rn == fl.Name {
				return nil, b.errf(fl.Line, fl.Col, "duplicate-symbol", "field name %q is reserved", fl.Name)
			}
		}
		dp.Field = append(dp.Field, fp)
	}
	for i, n := range members {
		if n == 0 {
			return nil, b.errf(m.Oneofs[i].Line, 0, "syntax", "oneof %q must have at least one field", m.Oneofs[i].Name)
		}
	}
	// proto3 optional: synthetic oneofs after the real ones
	for i, fl := range m.Fields {
		if fl.Optional && proto3 && fl.Oneof < 0 {
			name := "_" + fl.Name
			for {
				clash := false
				for _, o := range dp.OneofDecl {
					if o.GetName() == name {
						clash = true
					}
				}
				if !clash {
					break
				}
				name = "X" + name
			}
			dp.Field[i].Proto3Optional = proto.Bool(true)
			dp.Field[i].OneofIndex = proto.Int32(int32(len(dp.OneofDecl)))
			dp.OneofDecl = append(dp.OneofDecl, &descriptorpb.OneofDescriptorProto{Name: proto.String(name)})
		}
	}
	for _, c := range m.Messages {
		cp, err := b.message(full, c)
		if err != nil {
			return nil, err
		}
		dp.NestedType = append(dp.NestedType, cp)
	}
	// map entry messages come after the declared nested messages, as protoc emits them in
	// declaration order this only matters for index-free consumers
	for _, e := range m.Enums {
		ep, err := b.enum(full, e)
		if err != nil {
			return nil, err
		}
		dp.EnumType = append(dp.EnumType, ep)
	}
	for _, x := range m.Extends {
		xs, err := b.extend(full, x)
		if err != nil {
			return nil, err
		}
		dp.Extension = append(dp.Extension, xs...)
	}
	for _, r := range m.Reserved {
		if r.Start < 1 || r.End < r.Start {
			return nil, b.errf(m.Line, m.Col, "range", "bad reserved range %d to %d in %q", r.Start, r.End, full)
		}
		end := r.End
		if end > MaxFieldNumber {
			end = MaxFieldNumber
		}
		dp.ReservedRange = append(dp.ReservedRange, &descriptorpb.DescriptorProto_ReservedRange{Start: proto.Int32(int32(r.Start)), End: proto.Int32(int32(end + 1))})
	}
	dp.ReservedName = append(dp.ReservedName, m.ReservedNames...)
	for _, o := range m.Options {
		if dp.Options == nil {
			dp.Options = &descriptorpb.MessageOptions{}
		}
		if err := b.setOption(dp.Options, o, scope); err != nil {
			return nil, err
		}
	}
	return dp, nil
}

func (b *builder) mapField(scope string, fl *Field, parent *descriptorpb.DescriptorProto, proto3 bool) (*descriptorpb.FieldDescriptorProto, error) {
	if err := b.checkNumber(fl); err != nil {
		return nil, err
	}
	kt, ok := scalarTypes[fl.MapKey]
	if !ok || kt == descriptorpb.FieldDescriptorProto_TYPE_DOUBLE || kt == descriptorpb.FieldDescriptorProto_TYPE_FLOAT || kt == descriptorpb.FieldDescriptorProto_TYPE_BYTES {
		return nil, b.errf(fl.Line, fl.Col, "syntax", "map key type %q must be an integral or string scalar", fl.MapKey)
	}
	entry := mapEntryName(fl.Name)
	vt, vtn, err := b.typeRef(fl.MapValue, scope, fl.Line, fl.Col)
	if err != nil {
		return nil, err
	}
	val := &descriptorpb.FieldDescriptorProto{Name: proto.String("value"), JsonName: proto.String("value"), Number: proto.Int32(2),
		Label: descriptorpb.FieldDescriptorProto_LABEL_OPTIONAL.Enum(), Type: vt.Enum()}
	if vtn != "" {
		val.TypeName = proto.String(vtn)
	}
	parent.NestedType = append(parent.NestedType, &descriptorpb.DescriptorProto{
		Name: proto.String(entry),
		Field: []*descriptorpb.FieldDescriptorProto{
			{Name: proto.String("key"), JsonName: proto.String("key"), Number: proto.Int32(1), Label: descriptorpb.FieldDescriptorProto_LABEL_OPTIONAL.Enum(), Type: kt.Enum()},
			val,
		},
		Options: &descriptorpb.MessageOptions{MapEntry: proto.Bool(true)},
	})
	fp := &descriptorpb.FieldDescriptorProto{Name: proto.String(fl.Name), JsonName: proto.String(JSONName(fl.Name)), Number: proto.Int32(int32(fl.Number)),
		Label: descriptorpb.FieldDescriptorProto_LABEL_REPEATED.Enum(), Type: descriptorpb.FieldDescriptorProto_TYPE_MESSAGE.Enum(),
		TypeName: proto.String("." + join(scope, entry))}
	for _, o := range fl.Options {
		if fp.Options == nil {
			fp.Options = &descriptorpb.FieldOptions{}
		}
		if err := b.setOption(fp.Options, o, scope); err != nil {
			return nil, err
		}
	}
	return fp, nil
}

func (b *builder) enum(scope string, e *Enum) (*descriptorpb.EnumDescriptorProto, error) {
	ep := &descriptorpb.EnumDescriptorProto{Name: proto.String(e.Name)}
	if len(e.Values) == 0 {
		return nil, b.errf(e.Line, e.Col, "syntax", "enum %q must contain at least one value", e.Name)
	}
	for _, o := range e.Options {
		if ep.Options == nil {
			ep.Options = &descriptorpb.EnumOptions{}
		}
		if err := b.setOption(ep.Options, o, scope); err != nil {
			return nil, err
		}
	}
	allowAlias := ep.GetOptions().GetAllowAlias()
	if b.f.Syntax == "proto3" && e.Values[0].Number != 0 {
		return nil, b.errf(e.Values[0].Line, e.Values[0].Col, "syntax", "the first enum value of %q must be zero in proto3, have %s = %d", e.Name, e.Values[0].Name, e.Values[0].Number)
	}
	seen := map[int64]*EnumValue{}
	for _, v := range e.Values {
		if v.Number < math.MinInt32 || v.Number > math.MaxInt32 {
			return nil, b.errf(v.Line, v.Col, "range", "enum value %s = %d of %q is outside the int32 range", v.Name, v.Number, join(scope, e.Name))
		}
		if other, ok := seen[v.Number]; ok && !allowAlias {
			return nil, b.errf(v.Line, v.Col, "duplicate-number", "enum %q: %q uses the same value %d as %q (allow_alias is not set)", join(scope, e.Name), v.Name, v.Number, other.Name)
		}
		seen[v.Number] = v
		vp := &descriptorpb.EnumValueDescriptorProto{Name: proto.String(v.Name), Number: proto.Int32(int32(v.Number))}
		for _, o := range v.Options {
			if vp.Options == nil {
				vp.Options = &descriptorpb.EnumValueOptions{}
			}
			if err := b.setOption(vp.Options, o, scope); err != nil {
				return nil, err
			}
		}
		ep.Value = append(ep.Value, vp)
	}
	for _, r := range e.Reserved {
		if r.End < r.Start || r.Start < math.MinInt32 {
			return nil, b.errf(e.Line, e.Col, "range", "bad reserved range in enum %q", e.Name)
		}
		end := r.End
		if end > math.MaxInt32 {
			end = math.MaxInt32
		}
		ep.ReservedRange = append(ep.ReservedRange, &descriptorpb.EnumDescriptorProto_EnumReservedRange{Start: proto.Int32(int32(r.Start)), End: proto.Int32(int32(end))})
	}
	ep.ReservedName = append(ep.ReservedName, e.ReservedNames...)
	return ep, nil
}

func (b *builder) extend(scope string, x *Extend) ([]*descriptorpb.FieldDescriptorProto, error) {
	full, s, ok := lookup(b.vis, x.Extendee, scope, true)
	if !ok || s.kind != symMessage {
		return nil, b.errf(x.Line, 0, "unresolved", "extendee %q is not a visible message", x.Extendee)
	}
	var out []*descriptorpb.FieldDescriptorProto
	for _, fl := range x.Fields {
		fp, err := b.field(scope, fl, false)
		if err != nil {
			return nil, err
		}
		if fl.Required {
			return nil, b.errf(fl.Line, fl.Col, "syntax", "extensions cannot be required")
		}
		fp.Extendee = proto.String("." + full)
		fp.JsonName = nil
		out = append(out, fp)
	}
	return out, nil
}

// setOption interprets one option on an options message. scope is the scope in which a
// parenthesised extension name is looked up (the scope containing the annotated element).
func (b *builder) setOption(opts proto.Message, o Option, scope string) error {
	if len(o.Rest) > 0 {
		return fmt.Errorf("%s:%d: option sub-fields (%s): %w", b.f.Name, o.Line, o.Name, ErrUnsupported)
	}
	m := opts.ProtoReflect()
	var fd protoreflect.FieldDescriptor
	if o.Ext != "" {
		full, s, ok := lookup(b.vis, o.Ext, scope, false)
		if !ok || s.kind != symExtension {
			hint := ""
			if ps, inPool := b.l.pool[strings.TrimPrefix(o.Ext, ".")]; inPool {
				hint = fmt.Sprintf(" (it is defined in %q, which this file does not import)", ps.file)
			} else if _, err := protoregistry.GlobalTypes.FindExtensionByName(protoreflect.FullName(strings.TrimPrefix(o.Ext, "."))); err == nil {
				hint = " (the file that defines it is not imported)"
			}
			return b.errf(o.Line, o.Col, "unresolved", "option %s: extension %q is not visible in scope %q%s", o.Name, o.Ext, scope, hint)
		}
		xt, err := protoregistry.GlobalTypes.FindExtensionByName(protoreflect.FullName(full))
		if err != nil {
			return fmt.Errorf("%s:%d: extension %q has no Go type registered: %w", b.f.Name, o.Line, full, ErrUnsupported)
		}
		fd = xt.TypeDescriptor()
		if fd.ContainingMessage().FullName() != m.Descriptor().FullName() {
			return b.errf(o.Line, o.Col, "option", "option %s extends %q, it cannot be used on %q", o.Name, fd.ContainingMessage().FullName(), m.Descriptor().FullName())
		}
	} else {
		fd = m.Descriptor().Fields().ByName(protoreflect.Name(o.Name))
		if fd == nil || o.Name == "uninterpreted_option" {
			return b.errf(o.Line, o.Col, "option", "option %q unknown for %q", o.Name, m.Descriptor().FullName())
		}
	}
	v, err := b.optionValue(fd, o)
	if err != nil {
		return err
	}
	if fd.IsList() {
		m.Mutable(fd).List().Append(v)
		return nil
	}
	if m.Has(fd) {
		return b.errf(o.Line, o.Col, "option", "option %s was already set", o.Name)
	}
	m.Set(fd, v)
	return nil
}

func (b *builder) optionValue(fd protoreflect.FieldDescriptor, o Option) (protoreflect.Value, error) {
	c := o.Value
	bad := func(want string) (protoreflect.Value, error) {
		return protoreflect.Value{}, b.errf(o.Line, o.Col, "option", "value %v of option %s must be %s", c, o.Name, want)
	}
	signed := func(lo, hi int64) (int64, bool) {
		if c.Kind != ConstInt {
			return 0, false
		}
		if c.Neg {
			if c.Int > 1<<63 {
				return 0, false
			}
			v := -int64(c.Int)
			return v, v >= lo
		}
		if c.Int > uint64(hi) {
			return 0, false
		}
		return int64(c.Int), true
	}
	switch fd.Kind() {
	case protoreflect.StringKind:
		if c.Kind != ConstString {
			return bad("a quoted string")
		}
		if !validUTF8(c.Str) {
			return bad("valid UTF-8")
		}
		return protoreflect.ValueOfString(c.Str), nil
	case protoreflect.BytesKind:
		if c.Kind != ConstString {
			return bad("a quoted string")
		}
		return protoreflect.ValueOfBytes([]byte(c.Str)), nil
	case protoreflect.BoolKind:
		if c.Kind != ConstIdent || (c.Ident != "true" && c.Ident != "false") {
			return bad("true or false")
		}
		return protoreflect.ValueOfBool(c.Ident == "true"), nil
	case protoreflect.Int32Kind, protoreflect.Sint32Kind, protoreflect.Sfixed32Kind:
		v, ok := signed(math.MinInt32, math.MaxInt32)
		if !ok {
			return bad("an int32")
		}
		return protoreflect.ValueOfInt32(int32(v)), nil
	case protoreflect.Int64Kind, protoreflect.Sint64Kind, protoreflect.Sfixed64Kind:
		v, ok := signed(math.MinInt64, math.MaxInt64)
		if !ok {
			return bad("an int64")
		}
		return protoreflect.ValueOfInt64(v), nil
	case protoreflect.Uint32Kind, protoreflect.Fixed32Kind:
		if c.Kind != ConstInt || c.Neg || c.Int > math.MaxUint32 {
			return bad("a uint32")
		}
		return protoreflect.ValueOfUint32(uint32(c.Int)), nil
	case protoreflect.Uint64Kind, protoreflect.Fixed64Kind:
		if c.Kind != ConstInt || c.Neg {
			return bad("a uint64")
		}
		return protoreflect.ValueOfUint64(c.Int), nil
	case protoreflect.FloatKind, protoreflect.DoubleKind:
		var f float64
		switch {
		case c.Kind == ConstFloat:
			f = c.Float
		case c.Kind == ConstInt:
			f = float64(c.Int)
			if c.Neg {
				f = -f
			}
		case c.Kind == ConstIdent && c.Ident == "inf":
			f = math.Inf(1)
			if c.Neg {
				f = math.Inf(-1)
			}
		case c.Kind == ConstIdent && c.Ident == "nan":
			f = math.NaN()
		default:
			return bad("a number")
		}
		if fd.Kind() == protoreflect.FloatKind {
			return protoreflect.ValueOfFloat32(float32(f)), nil
		}
		return protoreflect.ValueOfFloat64(f), nil
	case protoreflect.EnumKind:
		if c.Kind != ConstIdent {
			return bad("an enum value name")
		}
		ev := fd.Enum().Values().ByName(protoreflect.Name(c.Ident))
		if ev == nil {
			return bad("a value of enum " + string(fd.Enum().FullName()))
		}
		return protoreflect.ValueOfEnum(ev.Number()), nil
	}
	return protoreflect.Value{}, fmt.Errorf("%s:%d: message-typed option %s: %w", b.f.Name, o.Line, o.Name, ErrUnsupported)
}

func validUTF8(s string) bool {
	for _, r := range s {
		if r == 0xFFFD {
			// distinguish a real U+FFFD from a decoding error
			return strings.ToValidUTF8(s, "") == s
		}
	}
	return true
}
