package protoparse

import (
	"fmt"
	"strconv"
	"strings"
	"unicode/utf8"
)

type tokKind int

const (
	tEOF tokKind = iota
	tIdent
	tInt
	tFloat
	tString
	tSym
)

type token struct {
	kind tokKind
	text string // identifier, symbol, or raw number text
	str  string // decoded string literal
	u    uint64
	f    float64
	line int
	col  int
}

func (t token) String() string {
	switch t.kind {
	case tEOF:
		return "end of file"
	case tString:
		return strconv.Quote(t.str)
	}
	return strconv.Quote(t.text)
}

type lexer struct {
	file string
	src  string
	pos  int
	line int
	col  int
}

func (l *lexer) errf(line, col int, kind, format string, a ...interface{}) *Error {
	return &Error{File: l.file, Line: line, Col: col, Kind: kind, Msg: fmt.Sprintf(format, a...)}
}

func (l *lexer) adv(n int) {
	for i := 0; i < n; i++ {
		if l.src[l.pos] == '\n' {
			l.line++
			l.col = 1
		} else {
			l.col++
		}
		l.pos++
	}
}

func isLetter(c byte) bool {
	return c == '_' || (c >= 'a' && c <= 'z') || (c >= 'A' && c <= 'Z')
}
func isDigit(c byte) bool { return c >= '0' && c <= '9' }

func (l *lexer) skipSpace() error {
	for l.pos < len(l.src) {
		c := l.src[l.pos]
		switch {
		case c == ' ' || c == '\t' || c == '\n' || c == '\r' || c == '\f' || c == '\v':
			l.adv(1)
		case strings.HasPrefix(l.src[l.pos:], "//"):
			i := strings.IndexByte(l.src[l.pos:], '\n')
			if i < 0 {
				l.adv(len(l.src) - l.pos)
			} else {
				l.adv(i)
			}
		case strings.HasPrefix(l.src[l.pos:], "/*"):
			i := strings.Index(l.src[l.pos+2:], "*/")
			if i < 0 {
				return l.errf(l.line, l.col, "syntax", "unterminated block comment")
			}
			l.adv(i + 4)
		default:
			return nil
		}
	}
	return nil
}

func (l *lexer) next() (token, error) {
	if err := l.skipSpace(); err != nil {
		return token{}, err
	}
	t := token{line: l.line, col: l.col}
	if l.pos >= len(l.src) {
		t.kind = tEOF
		return t, nil
	}
	c := l.src[l.pos]
	switch {
	case isLetter(c):
		i := l.pos
		for i < len(l.src) && (isLetter(l.src[i]) || isDigit(l.src[i])) {
			i++
		}
		t.kind, t.text = tIdent, l.src[l.pos:i]
		l.adv(i - l.pos)
		return t, nil
	case isDigit(c) || (c == '.' && l.pos+1 < len(l.src) && isDigit(l.src[l.pos+1])):
		return l.number(t)
	case c == '"' || c == '\'':
		return l.str(t)
	case c >= 0x80 || c < 0x20:
		r, _ := utf8.DecodeRuneInString(l.src[l.pos:])
		return token{}, l.errf(l.line, l.col, "syntax", "invalid character %q", r)
	}
	t.kind, t.text = tSym, string(c)
	l.adv(1)
	return t, nil
}

func (l *lexer) number(t token) (token, error) {
	i := l.pos
	isFloat := false
	if strings.HasPrefix(l.src[i:], "0x") || strings.HasPrefix(l.src[i:], "0X") {
		i += 2
		for i < len(l.src) && (isDigit(l.src[i]) || (l.src[i]|0x20 >= 'a' && l.src[i]|0x20 <= 'f')) {
			i++
		}
	} else {
		for i < len(l.src) && isDigit(l.src[i]) {
			i++
		}
		if i < len(l.src) && l.src[i] == '.' {
			isFloat = true
			i++
			for i < len(l.src) && isDigit(l.src[i]) {
				i++
			}
		}
		if i < len(l.src) && (l.src[i] == 'e' || l.src[i] == 'E') {
			j := i + 1
			if j < len(l.src) && (l.src[j] == '+' || l.src[j] == '-') {
				j++
			}
			if j < len(l.src) && isDigit(l.src[j]) {
				isFloat = true
				i = j
				for i < len(l.src) && isDigit(l.src[i]) {
					i++
				}
			}
		}
	}
	raw := l.src[l.pos:i]
	// protoc: a number must not be directly followed by a letter
	if i < len(l.src) && isLetter(l.src[i]) {
		return token{}, l.errf(l.line, l.col, "syntax", "need space between number %q and identifier", raw)
	}
	t.text = raw
	if isFloat {
		f, err := strconv.ParseFloat(raw, 64)
		if err != nil {
			return token{}, l.errf(l.line, l.col, "syntax", "bad float literal %q", raw)
		}
		t.kind, t.f = tFloat, f
	} else {
		var u uint64
		var err error
		switch {
		case len(raw) > 2 && (raw[1] == 'x' || raw[1] == 'X'):
			u, err = strconv.ParseUint(raw[2:], 16, 64)
		case len(raw) > 1 && raw[0] == '0':
			u, err = strconv.ParseUint(raw[1:], 8, 64)
		case raw == "0x" || raw == "0X":
			err = fmt.Errorf("empty hex literal")
		default:
			u, err = strconv.ParseUint(raw, 10, 64)
		}
		if err != nil {
			return token{}, l.errf(l.line, l.col, "range", "integer literal %q is invalid or out of range", raw)
		}
		t.kind, t.u = tInt, u
	}
	l.adv(i - l.pos)
	return t, nil
}

func (l *lexer) str(t token) (token, error) {
	q := l.src[l.pos]
	var b []byte
	i := l.pos + 1
	for {
		if i >= len(l.src) || l.src[i] == '\n' {
			return token{}, l.errf(l.line, l.col, "syntax", "unterminated string literal")
		}
		c := l.src[i]
		if c == q {
			i++
			break
		}
		if c == 0 {
			return token{}, l.errf(l.line, l.col, "syntax", "NUL in string literal")
		}
		if c != '\\' {
			b = append(b, c)
			i++
			continue
		}
		i++
		if i >= len(l.src) {
			return token{}, l.errf(l.line, l.col, "syntax", "unterminated string literal")
		}
		e := l.src[i]
		i++
		switch e {
		case 'a':
			b = append(b, 7)
		case 'b':
			b = append(b, 8)
		case 'f':
			b = append(b, 12)
		case 'n':
			b = append(b, '\n')
		case 'r':
			b = append(b, '\r')
		case 't':
			b = append(b, '\t')
		case 'v':
			b = append(b, 11)
		case '\\', '\'', '"', '?':
			b = append(b, e)
		case 'x', 'X':
			j := i
			for j < len(l.src) && j < i+2 && (isDigit(l.src[j]) || (l.src[j]|0x20 >= 'a' && l.src[j]|0x20 <= 'f')) {
				j++
			}
			if j == i {
				return token{}, l.errf(l.line, l.col, "syntax", "bad \\x escape in string literal")
			}
			v, _ := strconv.ParseUint(l.src[i:j], 16, 8)
			b = append(b, byte(v))
			i = j
		case '0', '1', '2', '3', '4', '5', '6', '7':
			j := i
			for j < len(l.src) && j < i+2 && l.src[j] >= '0' && l.src[j] <= '7' {
				j++
			}
			v, _ := strconv.ParseUint(l.src[i-1:j], 8, 16)
			b = append(b, byte(v))
			i = j
		case 'u', 'U':
			n := 4
			if e == 'U' {
				n = 8
			}
			if i+n > len(l.src) {
				return token{}, l.errf(l.line, l.col, "syntax", "bad unicode escape in string literal")
			}
			v, err := strconv.ParseUint(l.src[i:i+n], 16, 32)
			if err != nil || v > 0x10ffff {
				return token{}, l.errf(l.line, l.col, "syntax", "bad unicode escape in string literal")
			}
			b = utf8.AppendRune(b, rune(v))
			i += n
		default:
			return token{}, l.errf(l.line, l.col, "syntax", "unknown escape \\%c in string literal", e)
		}
	}
	t.kind, t.str = tString, string(b)
	t.text = l.src[l.pos:i]
	l.adv(i - l.pos)
	return t, nil
}
