// Package protoparse is a small, dependency-free recursive-descent parser for the protobuf
// language subset that ygot's protogen emits (and a little more: proto2/proto3 syntax line,
// package, imports, options incl. parenthesised extension names, messages, nested messages,
// enums, oneof, repeated/optional, map<,>, reserved, extend, comments).
//
// It exists because neither protoc nor a third-party .proto parser is available offline. It is
// an *oracle component* of check C28: Parse produces an AST with the numbers and names exactly
// as written (nothing is truncated or silently fixed), Link applies protoc's scoping and naming
// rules (symbol uniqueness per scope, relative type-name resolution, import visibility, JSON-name
// conflicts, numeric ranges) and converts to descriptorpb.FileDescriptorProto, which is then
// validated by protodesc.NewFile of the official runtime.
//
// Constructs outside the supported subset (services, aggregate option values, groups,
// extension ranges) give an error that wraps ErrUnsupported, so a caller can tell "the harness
// cannot judge this" from "this is not valid protobuf".
package protoparse

import (
	"errors"
	"fmt"
)

// ErrUnsupported marks constructs this parser does not implement.
var ErrUnsupported = errors.New("protoparse: unsupported construct")

// Error is a syntax or semantic error with a position.
type Error struct {
	File string
	Line int
	Col  int
	Kind string // syntax | range | duplicate-symbol | unresolved | import | json-name | option | other
	Msg  string
}

func (e *Error) Error() string {
	return fmt.Sprintf("%s:%d:%d: %s: %s", e.File, e.Line, e.Col, e.Kind, e.Msg)
}

// ConstKind says how an option value was written.
type ConstKind int

const (
	ConstIdent ConstKind = iota // true, false, inf, nan or an enum value name
	ConstInt
	ConstFloat
	ConstString
)

// Const is an option value.
type Const struct {
	Kind  ConstKind
	Ident string
	Neg   bool
	Int   uint64 // magnitude; Neg gives the sign
	Float float64
	Str   string // decoded bytes of a string literal
}

func (c Const) String() string {
	switch c.Kind {
	case ConstIdent:
		return c.Ident
	case ConstInt:
		if c.Neg {
			return fmt.Sprintf("-%d", c.Int)
		}
		return fmt.Sprintf("%d", c.Int)
	case ConstFloat:
		return fmt.Sprintf("%g", c.Float)
	}
	return fmt.Sprintf("%q", c.Str)
}

// Option is `name = value` where name is `ident(.ident)*` or `(full.name)(.ident)*`.
type Option struct {
	// Name is the option name as written without blanks, e.g. "go_package" or "(yext.schemapath)".
	Name string
	// Ext is the name inside the parentheses ("" for a plain option), e.g. "yext.schemapath".
	Ext string
	// Rest holds the identifiers that follow the first component (sub-fields), usually empty.
	Rest  []string
	Value Const
	Line  int
	Col   int
}

// Import is one import statement.
type Import struct {
	Path   string
	Public bool
	Weak   bool
	Line   int
}

// Range is a reserved range, End inclusive.
type Range struct{ Start, End int64 }

// Field is a message field (plain, oneof member, map field) or an extension field.
type Field struct {
	Name     string
	TypeName string // as written: scalar keyword or possibly dotted, possibly leading-dot name
	Number   int64  // as written, not range-checked by Parse
	Repeated bool
	Optional bool // explicit `optional`
	Required bool // proto2
	// Oneof is the index into Message.Oneofs, or -1.
	Oneof int
	// IsMap is set for map<K,V> fields; MapKey/MapValue are the written type names.
	IsMap            bool
	MapKey, MapValue string
	Options          []Option
	Line, Col        int
}

// Oneof is a oneof declaration; its members are the Fields with Oneof == index.
type Oneof struct {
	Name    string
	Options []Option
	Line    int
}

// Extend is an `extend Extendee { fields }` block.
type Extend struct {
	Extendee string
	Fields   []*Field
	Line     int
}

// Message is a message declaration. Fields holds all fields in declaration order, oneof
// members included.
type Message struct {
	Name          string
	Fields        []*Field
	Oneofs        []*Oneof
	Messages      []*Message
	Enums         []*Enum
	Extends       []*Extend
	Options       []Option
	Reserved      []Range
	ReservedNames []string
	Line, Col     int
}

// EnumValue is one enum value.
type EnumValue struct {
	Name      string
	Number    int64 // as written, not range-checked by Parse
	Options   []Option
	Line, Col int
}

// Enum is an enum declaration.
type Enum struct {
	Name          string
	Values        []*EnumValue
	Options       []Option
	Reserved      []Range
	ReservedNames []string
	Line, Col     int
}

// File is a parsed .proto file.
type File struct {
	// Name is the path under which other files import this one.
	Name     string
	Syntax   string // "proto2" (also when absent) or "proto3"
	Package  string
	Imports  []Import
	Options  []Option
	Messages []*Message
	Enums    []*Enum
	Extends  []*Extend
}

// WalkMessages calls fn for every message of the file (nested ones too) with its full name
// (package-qualified, no leading dot).
func (f *File) WalkMessages(fn func(fullName string, m *Message)) {
	var rec func(prefix string, ms []*Message)
	rec = func(prefix string, ms []*Message) {
		for _, m := range ms {
			n := join(prefix, m.Name)
			fn(n, m)
			rec(n, m.Messages)
		}
	}
	rec(f.Package, f.Messages)
}

// WalkEnums calls fn for every enum (top-level and nested) with its full name.
func (f *File) WalkEnums(fn func(fullName string, e *Enum)) {
	for _, e := range f.Enums {
		fn(join(f.Package, e.Name), e)
	}
	f.WalkMessages(func(n string, m *Message) {
		for _, e := range m.Enums {
			fn(join(n, e.Name), e)
		}
	})
}

func join(a, b string) string {
	if a == "" {
		return b
	}
	return a + "." + b
}

// OptionValue returns the value of the first option called name ("(yext.schemapath)").
func OptionValue(opts []Option, name string) (Const, bool) {
	for _, o := range opts {
		if o.Name == name {
			return o.Value, true
		}
	}
	return Const{}, false
}
