#!/usr/bin/env python3
"""Merge draft finding files (kf-draft/*.json) into KNOWN_FINDINGS.json (by id; existing entries win)."""
import json, sys, glob
main = json.load(open('KNOWN_FINDINGS.json'))
have = {f['id'] for f in main['findings']}
for p in sys.argv[1:] or sorted(glob.glob('kf-draft/*.json')):
    for f in json.load(open(p)).get('findings', []):
        if f['id'] not in have:
            main['findings'].append(f); have.add(f['id']); print("added", f['id'], "from", p)
json.dump(main, open('KNOWN_FINDINGS.json', 'w'), indent=1, ensure_ascii=False)
