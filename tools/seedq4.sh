#!/bin/bash
# usage: seedq4.sh specfile ; lines: sid|srcdir|dest|cmd|checks|extra-args
cd /verif
while IFS='|' read -r sid src dest cmd checks extra; do
  [ -z "$sid" ] && continue
  ./seedeval.py "$src" "$sid" --dest "$dest" --cmd "$cmd" --checks $checks $extra > .out/logs/seed-$sid.log 2>&1
done < "$1"
