import json,sys
props={json.loads(l)['id']:json.loads(l) for l in open('/verif/properties.jsonl')}
T='''# Task: seed a realistic defect into openconfig/ygot that breaks one stated property

You work ONLY inside the git worktree `{wt}` (a checkout of openconfig/ygot, Go) and write results to `{out}`.
Do not read or touch /verif or /repo (out of scope for you); do not use the network (there is none).

## The property (id {id}: {title})

{statement}

Quantified over: {qtext}

Code anchors: {files}
Mechanisms: {mech}

## What to produce

A change to the library source (not to tests, not to testdata golden files) that
  1. still compiles,
  2. keeps the ENTIRE existing test suite green — run it exactly so, from the worktree root (takes ~1-2 min, needs this toolchain):
       export GOFLAGS=-mod=mod GOPROXY=off GOSUMDB=off GOTOOLCHAIN=local
       go1.26.8 test -mod=mod -vet=off -count=1 -timeout 25m ./... 2>&1 | grep -v "^ok\\|no test files" | head -50
     (on the untouched worktree the packages exampleoc/uexampleoc are empty files in this snapshot and gnmidiff / ypathgen/path_tests / some integration packages fail to BUILD because of that — that is the baseline; your change must not add any failing test or build failure: compare with a run on the untouched tree first),
  3. breaks the property above for SOME inputs, and
  4. needs something specific to manifest — a particular interleaving, a multi-step sequence of operations, an unusual input (a rare type/kind combination, a boundary value, a particular nesting, a particular option combination), or two cooperating sites that each look fine alone. NOT a change that ordinary use of the API would expose at once, and not a change any existing test catches. Think of a plausible maintainer mistake: a refactor that loses a case, an "optimisation" with a wrong fast path, an off-by-one at a boundary, a forgotten kind in a type switch, a cache keyed too coarsely, an early return.

Produce up to TWO such changes that are independent of each other (different root cause, ideally different files / mechanisms). For each change k in {{1,2}} write:
  - `{out}/m<k>/patch.diff`  — `git diff` of the worktree against HEAD (library change only; apply-able with `git apply` on a clean checkout),
  - `{out}/m<k>/demo/`       — a demonstration that FAILS with the change and PASSES without it: either a `_test.go` file (say into which package directory of the repository it must be copied and the exact `go test -run` command) or a small `main` program runnable with `go run` from inside the repository module. The demonstration must be self-contained within the repository module (it may use test schemas/generated structs that already exist in the repository, e.g. under testutil/, ytypes/schema/, integration_tests/, gogen/testdata, or generate code with `go run ./generator ...` which works offline — note exampleoc/uexampleoc are EMPTY in this snapshot and cannot be used),
  - `{out}/m<k>/meta.json`   — {{"property": "{id}", "summary": "...", "needs_to_manifest": "...", "files_changed": [...], "demo_cmd": "...", "baseline_tests": "what you ran and the result", "demo_without_patch": "pass", "demo_with_patch": "fail: <message>"}}.
NEVER use `git stash` (the stash is shared between worktrees and other people work in sibling worktrees). Reset the worktree (`git checkout -- . && git clean -fd`) between the two changes so each patch is independent and applies to a clean HEAD.

Verify every claim yourself before writing meta.json: demo passes on clean HEAD, fails with the patch; full test suite result identical to the untouched tree. If you cannot get a change to satisfy all of this, write fewer changes rather than a weak one, and say so in `{out}/REPORT.md`.
Leave the worktree clean (`git status` empty) when you finish. Final answer: a short summary of each change (what, where, what it needs to manifest).
'''
for pid in sys.argv[1:]:
    p=props[pid]
    a=p['anchors']
    s=T.format(wt='/tmp/wt/'+pid,out='/tmp/wtout/'+pid,id=pid,title=p['title'],statement=p['statement'],qtext=p['quantifier']['text'],
      files=', '.join(a['files']), mech='; '.join('%s (%s)'%(m['name'],m['where']) for m in a['mechanism']))
    open('/tmp/wtout/%s/TASK.md'%pid,'w').write(s)
    print(pid,len(s))
