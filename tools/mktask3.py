import json,sys,os,glob
exec(open('/verif/.out/mktask.py').read().split("for pid in sys.argv[1:]:")[0])
for pid in sys.argv[1:]:
    p=props[pid]; a=p['anchors']
    s=T.format(wt='/tmp/wt/'+pid,out='/tmp/wtout3/'+pid,id=pid,title=p['title'],statement=p['statement'],qtext=p['quantifier']['text'],
      files=', '.join(a['files']), mech='; '.join('%s (%s)'%(m['name'],m['where']) for m in a['mechanism']))
    taken=[]
    for d in sorted(glob.glob('/verif/seeded/%s-*/meta.json'%pid)):
        try:
            m=json.load(open(d)); taken.append('- '+' '.join((m.get('summary') or '').split())[:600])
        except Exception: pass
    s+='\n## Already taken\n\nOther engineers have already delivered the changes summarised below for this property. Yours must be DIFFERENT: a different mechanism and root cause (not the same function with another typo), so that they test other parts of what the property covers. Prefer parts of the statement, anchors, options and input kinds that the changes below do not touch; changes in code that the anchors do not name but that the property depends on (helpers in util/, the generators\' templates, the schema-handling code) are welcome.\n\n'+'\n'.join(taken)+'\n'
    os.makedirs('/tmp/wtout3/'+pid,exist_ok=True)
    open('/tmp/wtout3/%s/TASK.md'%pid,'w').write(s)
    print(pid,len(s))
