import json,sys,glob
for f in sorted(glob.glob('/verif/.out/logs/seed-*.log')):
    try:
        d=json.load(open(f))
    except Exception as e:
        print(f.split('seed-')[1][:-4], '(running/unparsable)'); continue
    ch=' '.join('%s:%s'%(k.split('@')[0], 'DET' if v['detected'] else ('miss' if v['exit']==0 else 'rc%d'%v['exit'])) for k,v in d.get('checks',{}).items())
    print(d['seed'], 'confirmed' if d.get('confirmed') else 'NOT-CONFIRMED', '|', ch)
    if not d.get('confirmed'):
        print('    ', {k:(str(v)[:300]) for k,v in d.items() if k not in('checks',)})
