#!/bin/bash
cd /verif
for p in C01 C02 C03 C04 C05 C06 C07 C08 C09 C10 C11 C12 C13 C14 C15 C16 C17 C18 C19 C20 C21 C22 C23 C24 C25 C26 C27 C28 C29 C30 C31 C32 C33 C34; do
  s=$(date +%s); out=$(VERIF_SEED=1 ./check $p 2>&1); rc=$?; e=$(date +%s)
  echo "$p rc=$rc wall=$((e-s))s $(echo "$out" | grep -c KNOWN-FINDING) known; $(echo "$out" | grep -E 'VIOLATION|INCONCLUSIVE' | head -2 | tr '\n' ' ')"
done
